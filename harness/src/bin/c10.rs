// C10 — sampled trees are external-sampling trees of the legal abstract game.
//
// Trees are sampled by the real Blueprint::tree over training epochs (alternating traverser,
// evolving profile, stand-in abstraction, hooks H2/H4/H5/H6) and
//  (a) dumped verbatim (node records with full game state, bucket, payoffs) for the Lean acceptor
//      `RP.TreeShape.acceptTree`:   tree <walker> <n> <node>*   →   accept
//      node = parent|- ; edge u8 ; s0 ; s1 ; pot ; board ; dealer ; ticker ; hist ; abs ; menu ; pay0 ; pay1
//      seat = state(b|s|f),stack,stake,spent,hole
//  (b) checked clause by clause by a search oracle written from the property text on top of the
//      real Game API (independent of the Lean model).
use robopoker::cards::hand::Hand;
use robopoker::cards::hole::Hole;
use robopoker::gameplay::action::Action;
use robopoker::gameplay::game::Game;
use robopoker::gameplay::ply::Turn;
use robopoker::gameplay::seat::State;
use robopoker::mccfr::blueprint::Blueprint;
use robopoker::mccfr::bucket::Bucket;
use robopoker::mccfr::counterfactual::Counterfactual;
use robopoker::mccfr::data::Data;
use robopoker::mccfr::edge::Edge;
use robopoker::mccfr::encoder::Encoder;
use robopoker::mccfr::info::Info;
use robopoker::mccfr::odds::Odds;
use robopoker::mccfr::partition::Partition;
use robopoker::mccfr::player::Player;
use robopoker::mccfr::profile::Profile;
use robopoker::mccfr::tree::Branch;
use robopoker::mccfr::tree::Tree;
use robopoker::verif::{MAX_DEPTH_SUBGAME, MAX_RAISE_REPEATS, STACK};
use rpharness::*;
use std::collections::{BTreeMap, HashMap, HashSet};

fn game_fields(g: &Game) -> String {
    let seats = g.verif_seats();
    let seat = |i: usize| {
        let (st, stack, stake, spent, hole) = seats[i];
        let st = match st {
            State::Betting => 'b',
            State::Shoving => 's',
            State::Folding => 'f',
        };
        format!("{},{},{},{},{}", st, stack, stake, spent, u64::from(Hand::from(hole)))
    };
    format!("{};{};{};{};{};{}", seat(0), seat(1), g.pot(), u64::from(Hand::from(g.board())), g.verif_dealer(), g.verif_ticker())
}

fn same_game(a: &Game, b: &Game) -> bool {
    game_fields(a) == game_fields(b)
}

fn is_aggro(e: &Edge) -> bool {
    matches!(e, Edge::Raise(_) | Edge::Shove)
}

const P0: Player = Player(Turn::Choice(0));
const P1: Player = Player(Turn::Choice(1));

/// payout of a finished two-seat hand by the RULES (independent of Showdown / Strength): a fold
/// costs the folder what he put in, at a showdown the better best-five (rules evaluator of
/// harness/src/lib.rs, by enumeration of 5-subsets) wins what the other matched, a tie costs nothing
fn rules_payout(game: &Game) -> Option<(i32, i32)> {
    let seats = game.verif_seats();
    if seats.len() != 2 {
        return None;
    }
    let r = [seats[0].3 as i32, seats[1].3 as i32];
    let folded = [matches!(seats[0].0, State::Folding), matches!(seats[1].0, State::Folding)];
    match folded {
        [true, false] => Some((-r[0], r[0])),
        [false, true] => Some((r[1], -r[1])),
        [true, true] => None,
        _ => {
            let board = u64::from(Hand::from(game.board()));
            if board.count_ones() != 5 {
                return None;
            }
            let v0 = poker::best5(u64::from(Hand::from(seats[0].4)) | board, is_shortdeck());
            let v1 = poker::best5(u64::from(Hand::from(seats[1].4)) | board, is_shortdeck());
            let m = r[0].min(r[1]);
            Some(match v0.cmp(&v1) {
                std::cmp::Ordering::Greater => (m, -m),
                std::cmp::Ordering::Less => (-m, m),
                std::cmp::Ordering::Equal => (0, 0),
            })
        }
    }
}

fn show_edge(e: &Edge) -> String {
    match e {
        Edge::Raise(o) => format!("R{}:{}", o.0, o.1),
        e => format!("{e}"),
    }
}

fn show_cards(mask: u64) -> String {
    (0..52u8).filter(|c| mask >> c & 1 == 1).map(|c| format!("{}{}", ["2", "3", "4", "5", "6", "7", "8", "9", "T", "J", "Q", "K", "A"][(c / 4) as usize], ["c", "d", "h", "s"][(c % 4) as usize])).collect::<Vec<_>>().join("")
}

/// the raise clause at one decision node, written from the property text and the configured tables
/// (independent of Game::choices / Game::raises): with n raises / all-ins already made in the
/// current betting round the menu's raise edges are exactly the street's grid (PREF / FLOP /
/// LATE for n = 0 and LAST for n >= 1 on turn and river) while a raise is legal and
/// n <= MAX_RAISE_REPEATS, and there is NO raise edge once n > MAX_RAISE_REPEATS; no betting round
/// holds more than MAX_RAISE_REPEATS + 1 raises. `history` is the full path from the root
fn check_raise_cap(run: &mut Run, game: &Game, history: &[Edge], menu: &[Edge], at: &str) {
    if !matches!(game.turn(), Turn::Choice(_)) {
        return;
    }
    run.spec_checked += 1;
    let round: Vec<Edge> = history.iter().rev().take_while(|e| !matches!(e, Edge::Draw)).copied().collect();
    let n = round.iter().filter(|e| is_aggro(e)).count();
    let n_raise = round.iter().filter(|e| matches!(e, Edge::Raise(_))).count();
    let offered: Vec<Edge> = menu.iter().filter(|e| matches!(e, Edge::Raise(_))).copied().collect();
    let shown = u64::from(Hand::from(game.board())).count_ones();
    let describe = || {
        let seats = game.verif_seats();
        format!(
            "{at}: line [{}], {} board cards, pot {}, stacks {} / {}, {n} raises / all-ins ({n_raise} raises) already made in this betting round, menu [{}]",
            history.iter().map(show_edge).collect::<Vec<_>>().join(" "), shown, game.pot(), seats[0].1, seats[1].1,
            menu.iter().map(show_edge).collect::<Vec<_>>().join(" ")
        )
    };
    if n_raise > MAX_RAISE_REPEATS + 1 {
        run.fail("raise-cap-exceeded", &describe(), &format!("at most {} raises in a betting round", MAX_RAISE_REPEATS + 1), &format!("{n_raise}"));
    }
    if n > MAX_RAISE_REPEATS {
        if !offered.is_empty() {
            run.fail("menu-offers-raise-beyond-cap", &describe(), &format!("no raise edge once more than {MAX_RAISE_REPEATS} raises / all-ins were made in the round"), &format!("[{}]", offered.iter().map(show_edge).collect::<Vec<_>>().join(" ")));
        }
        run.count(&format!("decision-node-at-raise-cap board-cards={shown}{}", if game.legal().iter().any(|a| matches!(a, Action::Raise(_))) { " raise-still-affordable" } else { "" }));
        return;
    }
    let grid: Vec<Odds> = match (shown, n) {
        (0, _) => Odds::PREF_RAISES.to_vec(),
        (3, _) => Odds::FLOP_RAISES.to_vec(),
        (_, 0) => Odds::LATE_RAISES.to_vec(),
        _ => Odds::LAST_RAISES.to_vec(),
    };
    let want: Vec<Edge> = if game.legal().iter().any(|a| matches!(a, Action::Raise(_))) { grid.into_iter().map(Edge::Raise).collect() } else { vec![] };
    if want != offered {
        run.fail("menu-raises-not-the-grid-of-street-and-round", &describe(), &format!("[{}]", want.iter().map(show_edge).collect::<Vec<_>>().join(" ")), &format!("[{}]", offered.iter().map(show_edge).collect::<Vec<_>>().join(" ")));
    }
}

/// the leaf clause on one childless node, through the real Node::payoff: finished hand, the two
/// payoffs sum to zero, and they are the rules payout. returns the payoffs (0, 0 if unavailable)
fn check_leaf(run: &mut Run, node: &robopoker::mccfr::node::Node, at: &str) -> (i32, i32) {
    run.spec_checked += 1;
    let game = node.data().game();
    let describe = || {
        let seats = game.verif_seats();
        format!(
            "{at}: line [{}] board {} holes {} / {} spent {} / {}",
            node.history().iter().map(|e| show_edge(e)).collect::<Vec<_>>().join(" "),
            show_cards(u64::from(Hand::from(game.board()))),
            show_cards(u64::from(Hand::from(seats[0].4))),
            show_cards(u64::from(Hand::from(seats[1].4))),
            seats[0].3,
            seats[1].3
        )
    };
    if game.turn() != Turn::Terminal {
        run.fail("leaf-not-finished-hand", at, "Terminal", &format!("{:?}", game.turn()));
        return (0, 0);
    }
    let mut pay = (0i32, 0i32);
    match catch(std::panic::AssertUnwindSafe(|| game.settlements().iter().map(|s| s.pnl() as i32).collect::<Vec<_>>())) {
        Some(p) if p.len() == 2 => {
            pay = (p[0], p[1]);
            if p[0] + p[1] != 0 {
                run.fail("leaf-payoffs-not-zero-sum", &describe(), "0", &format!("{} + {}", p[0], p[1]));
            }
        }
        other => run.fail("leaf-settlement-fails", &describe(), "two payoffs", &format!("{other:?}")),
    }
    match catch(std::panic::AssertUnwindSafe(|| (node.payoff(&P0), node.payoff(&P1)))) {
        Some((a, b)) => {
            if a + b != 0.0 {
                run.fail("leaf-node-payoffs-not-zero-sum", &describe(), "Node::payoff(P0) + Node::payoff(P1) = 0", &format!("{a} + {b}"));
            }
            if (a, b) != (pay.0 as f32, pay.1 as f32) {
                run.fail("node-payoff-not-settlement-pnl", &describe(), &format!("{pay:?}"), &format!("({a}, {b})"));
            }
        }
        None => run.fail("leaf-settlement-fails", &describe(), "Node::payoff returns", "panic"),
    }
    if let Some(want) = rules_payout(game) {
        run.spec_checked += 1;
        if want != pay {
            run.fail("leaf-payoff-not-rules-payout", &describe(), &format!("{want:?}"), &format!("{pay:?}"));
        }
    }
    pay
}

/// per-tree oracle + dump; returns the dump line (None if the tree is too big to dump)
fn check_tree(run: &mut Run, rng: &mut Rng, tree: &Tree, profile: &Profile, known: &mut HashSet<Bucket>, label: &str, dump: bool, sampled: bool) -> Option<String> {
    let walker = tree.walker();
    let nodes = tree.all();
    let n = nodes.len();
    let encoder = Encoder::default();
    let widx = match walker {
        Player(Turn::Choice(x)) => x,
        _ => 9,
    };
    let mut line = format!("tree {} {}", widx, n);
    let mut hist: Vec<Vec<Edge>> = vec![vec![]; n];
    let mut groups: HashMap<Bucket, (Vec<Edge>, Vec<Edge>, u64)> = HashMap::new();
    let mut fresh: Vec<(Bucket, Vec<Edge>)> = vec![];
    let mut seen_here: HashSet<Bucket> = HashSet::new();
    for (i, node) in nodes.iter().enumerate() {
        run.evaluations += 1;
        let game = node.data().game();
        let at = format!("{label} node {i}");
        // history (own walk)
        if let (Some(p), Some(e)) = (node.parent(), node.incoming()) {
            let pi = p.index().index();
            if pi >= i {
                run.fail("parent-not-before-child", &at, "parent index < index", &format!("{pi}"));
            }
            hist[i] = hist[pi].clone();
            hist[i].push(*e);
            // ---- every child is the parent state after a permitted action
            run.spec_checked += 1;
            let pg = p.data().game();
            let action = match e {
                Edge::Draw => {
                    let add = u64::from(Hand::from(game.board())) & !u64::from(Hand::from(pg.board()));
                    Action::Draw(Hand::from(add))
                }
                e => pg.actionize(e),
            };
            if let Err(why) = rules_permit(pg, &action) {
                run.fail("child-by-forbidden-action", &format!("{at}: edge {} of the parent after {}", show_edge(e), describe_node(&p)), &why, &format!("{action:?}"));
            } else if !pg.is_allowed(&action) {
                run.fail("child-by-forbidden-action", &at, "an action permitted in the parent state", &format!("{action:?}"));
            } else if !same_game(&pg.apply(action), game) {
                run.fail("child-not-parent-after-action", &at, &game_fields(&pg.apply(action)), &game_fields(game));
            }
        } else if i != 0 {
            run.fail("second-root", &at, "one root", "node without parent");
        }
        let children = node.children();
        let mut kid_edges: Vec<Edge> = children.iter().map(|c| *c.incoming().unwrap()).collect();
        kid_edges.sort();
        let bucket = node.bucket().clone();
        let menu: Vec<Edge> = Vec::<Edge>::from(bucket.2.clone());
        let mut menu_sorted = menu.clone();
        menu_sorted.sort();
        // ---- the menu is the legal abstract menu for the current betting round
        run.spec_checked += 1;
        let round: Vec<&Edge> = hist[i].iter().rev().take_while(|e| !matches!(e, Edge::Draw)).collect();
        let n_aggro = round.iter().take(MAX_DEPTH_SUBGAME).filter(|e| is_aggro(e)).count();
        let n_raise = round.iter().filter(|e| matches!(e, Edge::Raise(_))).count();
        if n_raise > MAX_RAISE_REPEATS + 1 {
            run.fail("raise-cap-exceeded", &at, &format!("at most {} raises in a betting round", MAX_RAISE_REPEATS + 1), &format!("{n_raise}"));
        }
        check_raise_cap(run, game, &hist[i], &menu, &at);
        let want_menu = game.choices(n_aggro);
        if want_menu != menu {
            run.fail("menu-not-choices-of-round", &at, &format!("{want_menu:?}"), &format!("{menu:?}"));
        }
        // ---- children by player
        run.spec_checked += 1;
        match node.player() {
            Player(Turn::Terminal) => {
                if !children.is_empty() {
                    run.fail("terminal-has-children", &at, "0", &format!("{}", children.len()));
                }
            }
            p if p == walker => {
                if kid_edges != menu_sorted {
                    run.fail("walker-children-not-menu", &at, &format!("{menu_sorted:?}"), &format!("{kid_edges:?}"));
                }
                let mut dedup = kid_edges.clone();
                dedup.dedup();
                if dedup.len() != kid_edges.len() {
                    run.fail("walker-action-twice", &at, "each action once", &format!("{kid_edges:?}"));
                }
            }
            _ => {
                if children.len() != 1 {
                    run.fail("sampled-node-not-one-child", &at, "1", &format!("{}", children.len()));
                } else if !menu.contains(&kid_edges[0]) {
                    run.fail("sampled-child-off-menu", &at, &format!("{menu:?}"), &format!("{:?}", kid_edges[0]));
                } else if sampled && node.player() != Player::chance() && i % 3 == 0 {
                    // the opponent's child is the one Profile::explore_one draws (its PRNG is
                    // seeded by (epoch, bucket), so the draw can be replayed on the same profile)
                    run.spec_checked += 1;
                    let again = profile.explore_one(encoder.branches(node), node);
                    if again.len() != 1 || *again[0].edge() != kid_edges[0] {
                        run.fail("opponent-child-not-drawn-by-explore-one", &at, &format!("{:?}", again.iter().map(|b| *b.edge()).collect::<Vec<_>>()), &format!("{:?}", kid_edges[0]));
                    }
                    run.count("opponent-draw-replayed");
                }
            }
        }
        // ---- leaves are finished hands, zero-sum, paid by the rules
        let mut pay = (0i32, 0i32);
        if children.is_empty() {
            pay = check_leaf(run, node, &at);
        }
        // ---- bucket = (recalled history, card bucket of (actor's hole, board), menu)
        run.spec_checked += 1;
        let recalled: Vec<Edge> = hist[i].iter().take(MAX_DEPTH_SUBGAME).copied().collect();
        if Vec::<Edge>::from(bucket.0.clone()) != recalled {
            run.fail("bucket-history-not-recalled-history", &at, &format!("{recalled:?}"), &format!("{:?}", Vec::<Edge>::from(bucket.0.clone())));
        }
        let abs = encoder.abstraction(game);
        if abs != bucket.1 {
            run.fail("bucket-abstraction-not-of-actor-cards", &at, &format!("{abs:?}"), &format!("{:?}", bucket.1));
        }
        let entry = groups.entry(bucket.clone()).or_insert((recalled.clone(), menu.clone(), u64::from(bucket.1)));
        if entry.0 != recalled || entry.1 != menu || entry.2 != u64::from(bucket.1) {
            run.fail("infoset-mixes-histories", &at, &format!("{:?}", entry.0), &format!("{recalled:?}"));
        }
        // ---- the card bucket ignores the opponent's cards (sampled nodes)
        if i % 7 == 0 {
            run.spec_checked += 1;
            let seats = game.verif_seats();
            let actor = u64::from(Hand::from(game.actor().cards()));
            let ai = if u64::from(Hand::from(seats[0].4)) == actor { 0 } else { 1 };
            let used = actor | u64::from(Hand::from(game.board()));
            let other = rng.cards(2, u64::from(Hand::from(Hand::mask())) & !used);
            let mut holes = [seats[0].4, seats[1].4];
            holes[1 - ai] = Hole::from(Hand::from(other));
            let g2 = game.clone().verif_with_holes(&holes);
            let abs2 = encoder.abstraction(&g2);
            if abs2 != abs {
                run.fail("card-bucket-depends-on-opponent-cards", &at, &format!("{abs:?}"), &format!("{abs2:?}"));
            }
            run.count("opponent-cards-swapped");
        }
        // ---- fresh information sets start uniform
        if !children.is_empty() && node.player() != Player::chance() && !known.contains(&bucket) && seen_here.insert(bucket.clone()) {
            fresh.push((bucket.clone(), menu.clone()));
        }
        if dump {
            let p = node.parent().map(|p| p.index().index().to_string()).unwrap_or("-".into());
            let e = node.incoming().map(|e| u8::from(*e)).unwrap_or(0);
            line.push_str(&format!(" {};{};{};{};{};{};{};{}", p, e, game_fields(game), u64::from(bucket.0), u64::from(bucket.1), u64::from(bucket.2), pay.0, pay.1));
        }
        let kind = match node.player() {
            Player(Turn::Terminal) => "terminal",
            Player(Turn::Chance) => "chance",
            p if p == walker => "walker",
            _ => "opponent",
        };
        run.count(&format!("node-{kind}"));
        if hist[i].len() > MAX_DEPTH_SUBGAME && matches!(node.player(), Player(Turn::Choice(_))) {
            run.count(if sampled { "decision-node-deeper-than-16-edges(sampled)" } else { "decision-node-deeper-than-16-edges(directed)" });
        }
        run.distinct(&(label, i));
    }
    for (bucket, menu) in fresh {
        run.spec_checked += 1;
        let n = menu.len();
        for e in &menu {
            match profile.verif_memory(&bucket, e) {
                Some((r, p)) if r == 0.0 && p == 1.0 / n as f32 => {}
                other => run.fail("fresh-infoset-not-uniform", &format!("{label} bucket {bucket}"), &format!("regret 0 policy 1/{n}"), &format!("{other:?}")),
            }
            let w = profile.weight(&bucket, e);
            if (w - 1.0 / n as f32).abs() > 1e-6 {
                run.fail("fresh-infoset-not-uniform", &format!("{label} bucket {bucket}"), &format!("weight 1/{n}"), &format!("{w}"));
            }
        }
        run.count("fresh-infoset");
        known.insert(bucket);
    }
    if dump { Some(line) } else { None }
}

/// the real Partition::from against an independent grouping: traverser nodes with children, keyed
/// by (first 16 edges of the path from the root, card bucket of (actor's hole, board), legal
/// abstract menu of the current betting round) — none of it read from node.bucket()
fn check_partition(run: &mut Run, tree: Tree, label: &str) -> Vec<Info> {
    let encoder = Encoder::default();
    let walker = tree.walker();
    let mut want: BTreeMap<(Vec<Edge>, u64, Vec<Edge>), Vec<usize>> = BTreeMap::new();
    for (i, node) in tree.all().iter().enumerate() {
        if node.player() == walker && !node.children().is_empty() {
            let hist: Vec<Edge> = node.history().into_iter().copied().collect();
            let n_aggro = hist.iter().rev().take_while(|e| !matches!(e, Edge::Draw)).take(MAX_DEPTH_SUBGAME).filter(|e| is_aggro(e)).count();
            let key = (
                hist.iter().take(MAX_DEPTH_SUBGAME).copied().collect::<Vec<_>>(),
                u64::from(encoder.abstraction(node.data().game())),
                node.data().game().choices(n_aggro),
            );
            want.entry(key).or_default().push(i);
        }
    }
    let multi = want.values().filter(|g| g.len() > 1).count();
    if multi > 0 {
        run.count_n("multi-node-information-sets", multi as u64);
    }
    let infos: Vec<Info> = Partition::from(tree).into();
    run.spec_checked += 1;
    let mut got: Vec<Vec<usize>> = infos.iter().map(|i| { let mut r: Vec<usize> = i.roots().iter().map(|x| x.index().index()).collect(); r.sort(); r }).collect();
    got.sort();
    let mut exp: Vec<Vec<usize>> = want.values().cloned().collect();
    exp.sort();
    if got != exp {
        let bad = exp.iter().find(|g| !got.contains(g)).cloned().or(got.iter().find(|g| !exp.contains(g)).cloned()).unwrap_or_default();
        let near: Vec<Vec<usize>> = got.iter().filter(|g| g.iter().any(|x| bad.contains(x))).cloned().collect();
        let keys: Vec<String> = want.iter().filter(|(_, g)| g.iter().any(|x| bad.contains(x) || near.iter().any(|n| n.contains(x)))).map(|(k, g)| format!("{g:?}: history {:?} menu {:?}", k.0, k.2)).collect();
        run.fail("information-set-not-the-nodes-agreeing-on-history-menu-bucket", &format!("{label}: {}", keys.join(" | ")), &format!("{bad:?}"), &format!("{near:?}"));
    }
    infos
}

/// a chosen deal: both holes and the five board cards (flop = first three, then turn, river)
#[derive(Clone)]
struct Deal {
    name: String,
    holes: [u64; 2],
    board: [u8; 5],
}
impl Deal {
    fn root(&self) -> Game {
        Game::root().verif_with_holes(&[Hole::from(Hand::from(self.holes[0])), Hole::from(Hand::from(self.holes[1]))])
    }
    /// the cards chance reveals when `shown` board cards are out
    fn reveal(&self, shown: u32) -> Hand {
        let cards: &[u8] = match shown {
            0 => &self.board[0..3],
            3 => &self.board[3..4],
            _ => &self.board[4..5],
        };
        Hand::from(cards.iter().fold(0u64, |m, c| m | 1u64 << c))
    }
    fn describe(&self) -> String {
        format!("{} (holes {} / {}, board {} {} {})", self.name, show_cards(self.holes[0]), show_cards(self.holes[1]),
            show_cards(self.board[0..3].iter().fold(0u64, |m, c| m | 1u64 << c)), show_cards(1u64 << self.board[3]), show_cards(1u64 << self.board[4]))
    }
}

/// STRUCTURED RARE deals: boards and holes that random dealing (2.6M boards) practically never
/// produces but on which the showdown takes its extreme branches: the strongest possible hand
/// on the board / in one hand, straight flushes, quads and full houses on the board with and
/// without a playing kicker, boards that play for both, plus ordinary random deals as controls
fn structured_deals(rng: &mut Rng) -> Vec<Deal> {
    let c = |rank: u8, suit: u8| rank * 4 + suit;
    let mut out: Vec<Deal> = vec![];
    // fixed: cards named per seat (0..=2 each); the rest is drawn at random outside `avoid`
    let mut make = |name: &str, board: Vec<u8>, fixed: [Vec<u8>; 2], avoid: u64, rng: &mut Rng| {
        let mut used = board.iter().chain(fixed[0].iter()).chain(fixed[1].iter()).fold(0u64, |m, c| m | 1u64 << c);
        let mut holes = [0u64; 2];
        for i in 0..2 {
            let mut h = fixed[i].iter().fold(0u64, |m, c| m | 1u64 << c);
            let fill = rng.cards(2 - fixed[i].len(), ((1u64 << 52) - 1) & !used & !avoid);
            h |= fill;
            used |= fill;
            holes[i] = h;
        }
        let mut b = [0u8; 5];
        b.copy_from_slice(&board);
        // the order in which the board arrives is shuffled
        for k in (1..5).rev() {
            b.swap(k, rng.below(k as u64 + 1) as usize);
        }
        out.push(Deal { name: name.to_string(), holes, board: b });
    };
    for s in 0..4u8 {
        let other = (s + 1) % 4;
        let seat = (s % 2) as usize;
        let at = |seat: usize, cards: Vec<u8>| if seat == 0 { [cards, vec![]] } else { [vec![], cards] };
        let suit_mask = (0..13u8).fold(0u64, |m, r| m | 1u64 << c(r, s));
        make("royal flush ON THE BOARD", (8..13).map(|r| c(r, s)).collect(), [vec![], vec![]], 0, rng);
        make("royal flush ON THE BOARD, one seat holds a pocket pair", (8..13).map(|r| c(r, s)).collect(), at(seat, vec![c(5, other), c(5, (s + 2) % 4)]), 0, rng);
        make("king-high straight flush on the board, one seat holds the ace of the suit (royal flush with one hole card)", (7..12).map(|r| c(r, s)).collect(), at(seat, vec![c(12, s)]), 0, rng);
        make("king-high straight flush on the board, nobody holds the ace of the suit", (7..12).map(|r| c(r, s)).collect(), [vec![], vec![]], 1u64 << c(12, s), rng);
        make("royal flush with two hole cards against a lower straight flush", vec![c(10, s), c(9, s), c(8, s), c(3, other), c(0, other)], if seat == 0 { [vec![c(12, s), c(11, s)], vec![c(7, s), c(6, s)]] } else { [vec![c(7, s), c(6, s)], vec![c(12, s), c(11, s)]] }, 0, rng);
        make("royal flush with two hole cards", vec![c(12, s), c(10, s), c(8, s), c(8, other), c(2, other)], at(1 - seat, vec![c(11, s), c(9, s)]), 0, rng);
        make("nine-high straight flush on the board, plays for both", (3..8).map(|r| c(r, s)).collect(), [vec![], vec![]], 1u64 << c(8, s), rng);
        make("nine-high straight flush on the board, one seat holds the ten of the suit", (3..8).map(|r| c(r, s)).collect(), at(seat, vec![c(8, s)]), 0, rng);
        make("five-high straight flush (wheel) on the board, plays for both", vec![c(12, s), c(0, s), c(1, s), c(2, s), c(3, s)], [vec![], vec![]], 1u64 << c(4, s), rng);
        make("five-high straight flush (wheel) on the board, one seat holds the six of the suit", vec![c(12, s), c(0, s), c(1, s), c(2, s), c(3, s)], at(1 - seat, vec![c(4, s)]), 0, rng);
        let aces = (0..4u8).fold(0u64, |m, x| m | 1u64 << c(12, x));
        let q = 2 + 2 * s;
        make("quads on the board with a king, no ace out: board plays for both", vec![c(q, 0), c(q, 1), c(q, 2), c(q, 3), c(11, s)], [vec![], vec![]], aces, rng);
        make("quads on the board with a king, one seat holds an ace", vec![c(q, 0), c(q, 1), c(q, 2), c(q, 3), c(11, s)], at(seat, vec![c(12, other)]), aces, rng);
        make("quads on the board with a king, both seats hold an ace", vec![c(q, 0), c(q, 1), c(q, 2), c(q, 3), c(11, s)], [vec![c(12, s)], vec![c(12, other)]], 0, rng);
        make("quads on the board with a deuce", vec![c(q, 0), c(q, 1), c(q, 2), c(q, 3), c(0, s)], [vec![], vec![]], 0, rng);
        make("full house on the board", vec![c(11, 0), c(11, 1), c(11, 2), c(3 + s, 0), c(3 + s, 3)], [vec![], vec![]], 1u64 << c(11, 3), rng);
        make("full house on the board, one seat holds the fourth king", vec![c(11, 0), c(11, 1), c(11, 2), c(3 + s, 0), c(3 + s, 3)], at(seat, vec![c(11, 3)]), 0, rng);
        make("ace-high straight on the board, no flush possible: split", vec![c(8, s), c(9, other), c(10, (s + 2) % 4), c(11, (s + 3) % 4), c(12, s)], [vec![], vec![]], 0, rng);
        make("flush on the board, nobody holds the suit: split", vec![c(0, s), c(3, s), c(5, s), c(8, s), c(10, s)], [vec![], vec![]], suit_mask, rng);
        make("flush on the board, one seat holds the ace of the suit", vec![c(0, s), c(3, s), c(5, s), c(8, s), c(10, s)], at(seat, vec![c(12, s)]), 0, rng);
        make("two pair on the board", vec![c(12, s), c(12, other), c(11, s), c(11, other), c(10, (s + 2) % 4)], [vec![], vec![]], 0, rng);
        let any = rng.cards(5, (1u64 << 52) - 1);
        make("random deal (control)", (0..52u8).filter(|x| any >> x & 1 == 1).collect(), [vec![], vec![]], 0, rng);
    }
    out
}

/// one hand planted by hand on the real tree primitives along ONE line of the abstract game:
/// Tree::plant the root of the chosen deal, then repeatedly Tree::fork either a branch of
/// Encoder::branches (decisions: the edge is picked from the node's own menu by `style`) or the
/// child Game::apply(Action::Draw(chosen cards)) (chance). the leaf goes through check_leaf.
/// styles: 0 check-down, 1 bet-and-call every street, 2 all-in before the flop, 3 check to a
/// street then all-in, 4 a fold at the k-th decision that offers one, 5 random walk, 6 / 7 limp,
/// check every street before the river / the turn, then a raising war with the SMALLEST raise edge
/// for as long as the menu offers a raise (the only way a late betting round reaches the raise cap
/// with chips behind). every decision node on the line goes through check_raise_cap
fn line_hand(run: &mut Run, rng: &mut Rng, encoder: &Encoder, deal: &Deal, style: u64) {
    let mut tree = Tree::empty(if rng.chance(1, 2) { P0 } else { P1 });
    let root = deal.root();
    let mut head = tree.plant(Data::from((root, encoder.abstraction(&root)))).index();
    let jam_street = rng.below(4) as u32; // style 3: 0 pre, 1 flop, 2 turn, 3 river
    let fold_at = rng.below(6) as usize; // style 4
    let mut folds_seen = 0usize;
    let mut steps = 0usize;
    let what = format!("structured hand: {}, line style {style}", deal.describe());
    loop {
        steps += 1;
        if steps > 64 {
            run.fail("planted-hand-does-not-end", &what, "a finished hand within 64 edges", "still running");
            return;
        }
        let branch = {
            let node = tree.at(head);
            let game = *node.data().game();
            match game.turn() {
                Turn::Terminal => break,
                Turn::Chance => {
                    let shown = u64::from(Hand::from(game.board())).count_ones();
                    let draw = Action::Draw(deal.reveal(shown));
                    if !game.is_allowed(&draw) {
                        run.fail("chosen-reveal-not-permitted", &what, "a permitted draw", &format!("{draw:?}"));
                        return;
                    }
                    let g = game.apply(draw);
                    Branch(Data::from((g, encoder.abstraction(&g))), Edge::Draw, head)
                }
                Turn::Choice(_) => {
                    let mut bs = match catch(std::panic::AssertUnwindSafe(|| encoder.branches(&node))) {
                        Some(bs) => bs,
                        None => {
                            run.fail("tree-build-aborts", &format!("{what}: Encoder::branches at the node after {}", describe_node(&node)), "the children of the node, one per menu edge", "panic (Game::apply refuses the action an edge was turned into)");
                            return;
                        }
                    };
                    let edges: Vec<Edge> = bs.iter().map(|b| *b.edge()).collect();
                    let path: Vec<Edge> = node.history().into_iter().copied().collect();
                    check_raise_cap(run, &game, &path, &Vec::<Edge>::from(node.bucket().2.clone()), &what);
                    let pos = |want: &dyn Fn(&Edge) -> bool| edges.iter().position(|e| want(e));
                    let passive = pos(&|e| matches!(e, Edge::Check)).or(pos(&|e| matches!(e, Edge::Call)));
                    let call = pos(&|e| matches!(e, Edge::Call)).or(pos(&|e| matches!(e, Edge::Check))).or(pos(&|e| matches!(e, Edge::Shove)));
                    let raises: Vec<usize> = (0..edges.len()).filter(|&i| matches!(edges[i], Edge::Raise(_))).collect();
                    let round_raised = node.history().iter().rev().take_while(|e| !matches!(e, Edge::Draw)).any(|e| is_aggro(e));
                    let street = match u64::from(Hand::from(game.board())).count_ones() { 0 => 0, 3 => 1, 4 => 2, _ => 3 };
                    let has_fold = pos(&|e| matches!(e, Edge::Fold));
                    let i = match style {
                        0 => passive,
                        1 => if !round_raised && !raises.is_empty() { Some(raises[rng.below(raises.len() as u64) as usize]) } else { call },
                        2 => pos(&|e| matches!(e, Edge::Shove)).or(call),
                        3 => if street >= jam_street { pos(&|e| matches!(e, Edge::Shove)).or(call) } else { passive },
                        4 => {
                            if let Some(f) = has_fold {
                                folds_seen += 1;
                                if folds_seen > fold_at { Some(f) } else { call }
                            } else if !raises.is_empty() && rng.chance(2, 3) {
                                Some(raises[rng.below(raises.len() as u64) as usize])
                            } else {
                                passive
                            }
                        }
                        6 | 7 => {
                            let war_from = if style == 6 { 3 } else { 2 };
                            let smallest = raises.iter().copied().min_by(|&a, &b| match (edges[a], edges[b]) {
                                (Edge::Raise(x), Edge::Raise(y)) => (x.0 as i32 * y.1 as i32).cmp(&(y.0 as i32 * x.1 as i32)),
                                _ => std::cmp::Ordering::Equal,
                            });
                            if street >= war_from { smallest.or(call) } else { passive }
                        }
                        _ => {
                            let k = rng.below(edges.len() as u64) as usize;
                            if matches!(edges[k], Edge::Fold) && rng.chance(3, 4) { call } else { Some(k) }
                        }
                    };
                    let i = i.unwrap_or(0);
                    bs.remove(i)
                }
            }
        };
        head = tree.fork(branch).index();
    }
    let leaf = tree.at(head);
    run.evaluations += 1;
    check_leaf(run, &leaf, &what);
    let seats = leaf.data().game().verif_seats();
    let ending = if seats.iter().any(|s| matches!(s.0, State::Folding)) { "fold" } else if seats.iter().any(|s| matches!(s.0, State::Shoving)) { "all-in showdown" } else { "showdown" };
    run.count(&format!("structured-leaf {ending}"));
    run.count(&format!("structured-deal {}", deal.name));
    run.distinct(&(deal.holes, deal.board, leaf.history().iter().map(|e| u8::from(**e)).collect::<Vec<u8>>()));
}

fn describe_node(node: &robopoker::mccfr::node::Node) -> String {
    let game = node.data().game();
    let seats = game.verif_seats();
    format!(
        "line [{}], pot {}, stacks {} / {}, actor's stack {}, menu [{}]",
        node.history().iter().map(|e| show_edge(e)).collect::<Vec<_>>().join(" "), game.pot(), seats[0].1, seats[1].1, game.to_shove(),
        Vec::<Edge>::from(node.bucket().2.clone()).iter().map(show_edge).collect::<Vec<_>>().join(" ")
    )
}

/// the concrete action an edge stands for must be PERMITTED BY THE RULES (harness-side reading,
/// independent of Game::is_allowed): a raise leaves at least one chip behind (amount <= stack - 1)
/// and is at least the minimum raise, the all-in is exactly the stack, a call is the amount owed
fn rules_permit(game: &Game, action: &Action) -> Result<(), String> {
    let stack = game.to_shove();
    match action {
        Action::Raise(x) if *x > stack - 1 => Err(format!("a raise must leave at least one chip behind: at most {} with a stack of {stack}; the whole stack is the all-in Shove({stack})", stack - 1)),
        Action::Raise(x) if *x < game.to_raise() => Err(format!("a raise is at least the minimum raise {}", game.to_raise())),
        Action::Shove(x) if *x != stack => Err(format!("the all-in is the whole stack {stack}")),
        Action::Call(x) if *x != game.to_call() || *x >= stack => Err(format!("a call is the amount owed {} and less than the stack {stack}", game.to_call())),
        _ => Ok(()),
    }
}

/// EXACT-STACK raises: states of the abstract game in which a raise edge of the node's own menu is
/// worth exactly the actor's remaining stack (floor(pot * num / den) == stack), found by a search
/// over random betting lines (all raise sizes, mostly raising / calling) on the real Game API with
/// the arithmetic done harness-side; the search itself never takes such an edge
struct Hit {
    line: Vec<Edge>,
    edge: Edge,
    pot: i32,
    stack: i32,
}
fn exact_stack_hits(rng: &mut Rng, walks: usize) -> Vec<Hit> {
    let all = (1u64 << 52) - 1;
    let mut hits: Vec<Hit> = vec![];
    let mut seen: HashSet<(u32, i32, i32, u8)> = HashSet::new();
    for _ in 0..walks {
        let h0 = rng.cards(2, all);
        let h1 = rng.cards(2, all & !h0);
        let mut game = Game::root().verif_with_holes(&[Hole::from(Hand::from(h0)), Hole::from(Hand::from(h1))]);
        let mut line: Vec<Edge> = vec![];
        // a walk prefers small, large or any raise sizes so that many (pot, stack) pairs are met
        let taste = rng.below(3);
        for _ in 0..40 {
            match game.turn() {
                Turn::Terminal => break,
                Turn::Chance => {
                    let board = u64::from(Hand::from(game.board()));
                    let k = if board == 0 { 3 } else { 1 };
                    let cards = rng.cards(k, all & !h0 & !h1 & !board);
                    match catch(std::panic::AssertUnwindSafe(|| game.apply(Action::Draw(Hand::from(cards))))) {
                        Some(g) => game = g,
                        None => break,
                    }
                    line.push(Edge::Draw);
                }
                Turn::Choice(_) => {
                    let n = line.iter().rev().take_while(|e| !matches!(e, Edge::Draw)).filter(|e| is_aggro(e)).count();
                    let menu = match catch(std::panic::AssertUnwindSafe(|| game.choices(n))) {
                        Some(m) => m,
                        None => break,
                    };
                    let (pot, stack) = (game.pot() as i32, game.to_shove() as i32);
                    let exact = |e: &Edge| matches!(e, Edge::Raise(o) if pot * o.0 as i32 / o.1 as i32 == stack);
                    let shown = u64::from(Hand::from(game.board())).count_ones();
                    for e in menu.iter().filter(|e| exact(e)) {
                        if seen.insert((shown, pot, stack, u8::from(*e))) {
                            hits.push(Hit { line: line.clone(), edge: *e, pot, stack });
                        }
                    }
                    let safe: Vec<Edge> = menu.iter().filter(|e| !exact(e)).copied().collect();
                    let raises: Vec<Edge> = safe.iter().filter(|e| matches!(e, Edge::Raise(_))).copied().collect();
                    let passive = safe.iter().find(|e| matches!(e, Edge::Call | Edge::Check)).copied();
                    let pick = if !raises.is_empty() && rng.chance(3, 5) {
                        Some(match taste {
                            0 => raises[rng.below(raises.len().min(3) as u64) as usize],
                            1 => raises[raises.len() - 1 - rng.below(raises.len().min(3) as u64) as usize],
                            _ => raises[rng.below(raises.len() as u64) as usize],
                        })
                    } else if rng.chance(1, 40) {
                        safe.iter().find(|e| matches!(e, Edge::Shove)).copied().or(passive)
                    } else {
                        passive
                    };
                    let e = match pick.or(safe.first().copied()) {
                        Some(e) => e,
                        None => break,
                    };
                    match catch(std::panic::AssertUnwindSafe(|| game.apply(game.actionize(&e)))) {
                        Some(g) => game = g,
                        None => break,
                    }
                    line.push(e);
                }
            }
        }
    }
    hits
}

/// one exact-stack state planted on the real tree primitives: the line is replayed with
/// Tree::plant / Tree::fork + Encoder::branches, then the children of the node are computed as
/// the builder computes them. the build must not abort, the edge must have a child, the concrete
/// action must be the all-in (a raise of the whole stack is not a permitted raise), every other
/// edge's action must be permitted by the rules, and the child is the parent after that action
fn plant_hit(run: &mut Run, rng: &mut Rng, encoder: &Encoder, hit: &Hit) {
    let all = (1u64 << 52) - 1;
    let h0 = rng.cards(2, all);
    let h1 = rng.cards(2, all & !h0);
    let root = Game::root().verif_with_holes(&[Hole::from(Hand::from(h0)), Hole::from(Hand::from(h1))]);
    let mut tree = Tree::empty(if rng.chance(1, 2) { P0 } else { P1 });
    let mut head = tree.plant(Data::from((root, encoder.abstraction(&root)))).index();
    let what = format!("exact-stack raise: after line [{}] the pot is {} and the actor's stack {}, menu edge {} is worth pot x {}/{} = {} chips = the whole stack",
        hit.line.iter().map(show_edge).collect::<Vec<_>>().join(" "), hit.pot, hit.stack, show_edge(&hit.edge),
        match hit.edge { Edge::Raise(o) => o.0, _ => 0 }, match hit.edge { Edge::Raise(o) => o.1, _ => 1 }, hit.stack);
    run.evaluations += 1;
    for e in hit.line.iter() {
        let branch = {
            let node = tree.at(head);
            let game = *node.data().game();
            if matches!(e, Edge::Draw) {
                let board = u64::from(Hand::from(game.board()));
                let cards = rng.cards(if board == 0 { 3 } else { 1 }, all & !h0 & !h1 & !board);
                let g = game.apply(Action::Draw(Hand::from(cards)));
                Branch(Data::from((g, encoder.abstraction(&g))), Edge::Draw, head)
            } else {
                let mut bs = match catch(std::panic::AssertUnwindSafe(|| encoder.branches(&node))) {
                    Some(bs) => bs,
                    None => {
                        run.fail("tree-build-aborts", &format!("{what}; Encoder::branches already aborts on the way, at {}", describe_node(&node)), "the children of the node, one per menu edge", "panic (Game::apply refuses the action an edge was turned into)");
                        return;
                    }
                };
                match bs.iter().position(|b| b.edge() == e) {
                    Some(i) => bs.remove(i),
                    None => {
                        run.fail("planted-line-not-on-the-menu", &what, &show_edge(e), &describe_node(&node));
                        return;
                    }
                }
            }
        };
        head = tree.fork(branch).index();
    }
    let node = tree.at(head);
    let game = *node.data().game();
    if game.pot() as i32 != hit.pot || game.to_shove() as i32 != hit.stack {
        run.fail("planted-line-diverges", &what, &format!("pot {} stack {}", hit.pot, hit.stack), &describe_node(&node));
        return;
    }
    run.spec_checked += 1;
    let bs = match catch(std::panic::AssertUnwindSafe(|| encoder.branches(&node))) {
        Some(bs) => bs,
        None => {
            run.fail("tree-build-aborts", &format!("{what}; Encoder::branches (as called by Blueprint::sample on every node) at the node: {}", describe_node(&node)), "the children of the node, one per menu edge", "panic (Game::apply refuses the action the edge was turned into)");
            return;
        }
    };
    let menu: Vec<Edge> = Vec::<Edge>::from(node.bucket().2.clone());
    let got: Vec<Edge> = bs.iter().map(|b| *b.edge()).collect();
    if got != menu || !got.contains(&hit.edge) {
        run.fail("menu-edge-without-child", &what, &format!("{:?}", menu.iter().map(show_edge).collect::<Vec<_>>()), &format!("{:?}", got.iter().map(show_edge).collect::<Vec<_>>()));
    }
    for b in bs.iter() {
        run.spec_checked += 1;
        let e = b.edge();
        let action = match catch(std::panic::AssertUnwindSafe(|| game.actionize(e))) {
            Some(a) => a,
            None => {
                run.fail("tree-build-aborts", &format!("{what}; Game::actionize({})", show_edge(e)), "an action", "panic");
                continue;
            }
        };
        if let Err(why) = rules_permit(&game, &action) {
            run.fail("child-by-forbidden-action", &format!("{what}; edge {} was turned into {action:?}", show_edge(e)), &why, &format!("{action:?}"));
            continue;
        }
        if *e == hit.edge && !matches!(action, Action::Shove(x) if x as i32 == hit.stack) {
            run.fail("child-by-forbidden-action", &format!("{what}; edge {} was turned into {action:?}", show_edge(e)), &format!("Shove({})", hit.stack), &format!("{action:?}"));
        }
        match catch(std::panic::AssertUnwindSafe(|| game.apply(action))) {
            Some(g) if same_game(&g, b.0.game()) => {}
            Some(g) => run.fail("child-not-parent-after-action", &format!("{what}; edge {}", show_edge(e)), &game_fields(&g), &game_fields(b.0.game())),
            None => run.fail("child-by-forbidden-action", &format!("{what}; edge {} was turned into {action:?}", show_edge(e)), "an action Game::apply accepts", "panic"),
        }
    }
    // the child of the exact-stack edge joins the tree: the actor is all-in with nothing behind
    if let Some(i) = bs.iter().position(|b| *b.edge() == hit.edge) {
        let mut bs = bs;
        let child = tree.fork(bs.remove(i));
        let g = child.data().game();
        let seats = g.verif_seats();
        if g.pot() as i32 != hit.pot + hit.stack || !seats.iter().any(|s| s.1 == 0 && matches!(s.0, State::Shoving)) {
            run.fail("child-not-parent-after-action", &what, &format!("pot {} and the actor all-in with 0 behind", hit.pot + hit.stack), &game_fields(g));
        }
    }
    run.count(&format!("exact-stack-raise planted board-cards={}", u64::from(Hand::from(game.board())).count_ones()));
    run.distinct(&(hit.pot, hit.stack, u8::from(hit.edge), hit.line.iter().map(|e| u8::from(*e)).collect::<Vec<u8>>()));
}

/// replica of Blueprint::tree / Blueprint::sample on the real tree primitives (Tree::plant / fork,
/// Node::realize, Encoder::branches, Profile::witness / explore_all / explore_any), with the
/// opponent's branch chosen by a script instead of explore_one, so that long hands (lines deeper
/// than the 16-edge window) are built deliberately.
fn directed_tree(profile: &mut Profile, encoder: &Encoder, style: u64, rng: &mut Rng, deal: Option<&Deal>) -> Result<Tree, String> {
    fn pick(node: &robopoker::mccfr::node::Node, branches: &Vec<robopoker::mccfr::tree::Branch>, style: u64, depth: usize, rng: &mut Rng) -> usize {
        let edges: Vec<Edge> = branches.iter().map(|b| *b.edge()).collect();
        if style == 12 || style == 13 {
            // limp / check every street before the river (12) / the turn (13), then re-raise with the
            // smallest raise edge for as long as one is offered: the traverser's own min-raise lines
            // then run into the raise cap of a late betting round with chips still behind
            use robopoker::cards::street::Street;
            let passive = edges.iter().position(|e| matches!(e, Edge::Check)).or(edges.iter().position(|e| matches!(e, Edge::Call))).or(edges.iter().position(|e| matches!(e, Edge::Shove)));
            let call = edges.iter().position(|e| matches!(e, Edge::Call)).or(passive);
            let smallest = (0..edges.len()).filter(|&i| matches!(edges[i], Edge::Raise(_))).min_by(|&a, &b| match (edges[a], edges[b]) {
                (Edge::Raise(x), Edge::Raise(y)) => (x.0 as i32 * y.1 as i32).cmp(&(y.0 as i32 * x.1 as i32)),
                _ => std::cmp::Ordering::Equal,
            });
            let war = match node.data().game().street() {
                Street::Rive => true,
                Street::Turn => style == 13,
                _ => false,
            };
            return if war { smallest.or(call) } else { passive }.unwrap_or(0);
        }
        if style == 10 || style == 11 {
            // 10: all-in at the first opportunity (then calls); 11: folds to any bet after the
            // first decision of the hand, otherwise checks / calls
            let at = |want: &dyn Fn(&Edge) -> bool| edges.iter().position(|e| want(e));
            let passive = at(&|e| matches!(e, Edge::Check)).or(at(&|e| matches!(e, Edge::Call))).or(at(&|e| matches!(e, Edge::Shove)));
            let choice = match style {
                10 => at(&|e| matches!(e, Edge::Shove)).or(passive),
                _ => if depth > 0 { at(&|e| matches!(e, Edge::Fold)).or(passive) } else { passive },
            };
            return choice.unwrap_or(0);
        }
        if style == 9 {
            // small raises before the turn, check the turn, jam the river: the traverser's different
            // river lines then end in nodes deeper than 16 edges that share a bucket
            use robopoker::cards::street::Street;
            let passive = edges.iter().position(|e| matches!(e, Edge::Check)).or(edges.iter().position(|e| matches!(e, Edge::Call)));
            let choice = match node.data().game().street() {
                Street::Pref | Street::Flop => edges.iter().position(|e| matches!(e, Edge::Raise(_))).or(passive),
                Street::Turn => passive,
                Street::Rive => edges.iter().position(|e| matches!(e, Edge::Shove)),
            };
            return choice.unwrap_or(0);
        }
        let raises: Vec<usize> = (0..edges.len()).filter(|&i| matches!(edges[i], Edge::Raise(_))).collect();
        let passive = edges.iter().position(|e| matches!(e, Edge::Call)).or(edges.iter().position(|e| matches!(e, Edge::Check)));
        let smallest = raises.iter().copied().min_by(|&a, &b| {
            let (x, y) = match (edges[a], edges[b]) { (Edge::Raise(x), Edge::Raise(y)) => (x, y), _ => unreachable!() };
            (x.0 as i32 * y.1 as i32).cmp(&(y.0 as i32 * x.1 as i32))
        });
        let want_raise = match style {
            0 => true,                       // always the smallest raise while one is offered
            1 => rng.chance(7, 10),          // mostly raising
            2 => false,                      // always call / check: the traverser does the raising
            3 => depth % 2 == 0,             // alternate
            _ => rng.chance(1, 2),
        };
        match (want_raise, smallest, passive) {
            (true, Some(i), _) => i,
            (_, _, Some(i)) => i,
            (_, Some(i), None) => i,
            _ => 0,
        }
    }
    fn sample(profile: &mut Profile, encoder: &Encoder, node: &robopoker::mccfr::node::Node, style: u64, depth: usize, rng: &mut Rng, deal: Option<&Deal>) -> Result<Vec<robopoker::mccfr::tree::Branch>, String> {
        let walker = profile.walker();
        // the children of a node are computed as the real builder computes them; if that aborts
        // (an edge of the node's own menu turned into an action Game::act refuses) the node is named
        let mut branches = match catch(std::panic::AssertUnwindSafe(|| encoder.branches(node))) {
            Some(b) => b,
            None => return Err(describe_node(node)),
        };
        Ok(match (branches.len(), node.player()) {
            (0, _) => vec![],
            (_, p) if p == Player::chance() => match deal {
                None => profile.explore_any(branches, node),
                Some(deal) => {
                    // chance plays the chosen cards instead of the code's random draw
                    let game = node.data().game();
                    let g = game.apply(Action::Draw(deal.reveal(u64::from(Hand::from(game.board())).count_ones())));
                    vec![Branch(Data::from((g, encoder.abstraction(&g))), Edge::Draw, node.index())]
                }
            },
            (_, p) if p != walker => {
                profile.witness(node, &branches);
                let i = pick(node, &branches, style, depth, rng);
                vec![branches.remove(i)]
            }
            _ => {
                profile.witness(node, &branches);
                profile.explore_all(branches, node)
            }
        })
    }
    let mut tree = Tree::empty(profile.walker());
    let mut todo: Vec<(robopoker::mccfr::tree::Branch, usize)> = {
        let seed = match deal {
            None => encoder.seed(),
            Some(deal) => {
                let root = deal.root();
                Data::from((root, encoder.abstraction(&root)))
            }
        };
        let ref node = tree.plant(seed);
        sample(profile, encoder, node, style, 0, rng, deal)?.into_iter().map(|b| (b, 1)).collect()
    };
    while let Some((branch, depth)) = todo.pop() {
        let ref node = tree.fork(branch);
        let kids = sample(profile, encoder, node, style, depth, rng, deal)?;
        todo.extend(kids.into_iter().map(|b| (b, depth + 1)));
    }
    Ok(tree)
}

/// `draws` draws of the real Profile::explore_one at one opponent node under the policy stored in
/// `p2` (one PRNG seed per epoch), per-edge binomial test (6 sigma, at least +-6 draws) against
/// Profile::weight: an action of weight ~0 must be drawn ~0 times, a heavy one with its weight
fn frequency_test(run: &mut Run, p2: &mut Profile, encoder: &Encoder, node: &robopoker::mccfr::node::Node, draws: usize, what: &str) {
    let menu: Vec<Edge> = Vec::<Edge>::from(node.bucket().2.clone());
    let weights: Vec<f64> = menu.iter().map(|e| p2.weight(node.bucket(), e) as f64).collect();
    let mut hist: BTreeMap<Edge, u64> = BTreeMap::new();
    for t in 0..draws {
        p2.verif_set_epochs(1000 + t);
        run.evaluations += 1;
        match catch(std::panic::AssertUnwindSafe(|| p2.explore_one(encoder.branches(node), node))) {
            Some(chosen) if chosen.len() == 1 => *hist.entry(*chosen[0].edge()).or_insert(0) += 1,
            Some(chosen) => run.fail("explore-one-not-one", what, "1", &format!("{}", chosen.len())),
            None => {
                run.fail("explore-one-panics", &format!("{what}, epoch {}", 1000 + t), "one branch", "panic");
                return;
            }
        }
    }
    run.spec_checked += 1;
    let t = draws as f64;
    let table = menu.iter().zip(&weights).map(|(e, w)| format!("{}:w={w:.3e}:n={}", show_edge(e), hist.get(e).unwrap_or(&0))).collect::<Vec<_>>().join(" ");
    for (e, w) in menu.iter().zip(&weights) {
        let cnt = *hist.get(e).unwrap_or(&0) as f64;
        let sigma = (t * w * (1.0 - w)).sqrt().max(1.0);
        if (cnt - t * w).abs() > 6.0 * sigma {
            run.fail(
                "opponent-not-sampled-by-weight",
                &format!("{what} ({t} draws over epochs 1000..) edge {}; per edge weight and count: {table}", show_edge(e)),
                &format!("about {:.1} (weight {w:.3e})", t * w),
                &format!("{cnt}"),
            );
        }
    }
    let extra: u64 = hist.iter().filter(|(e, _)| !menu.contains(e)).map(|(_, c)| *c).sum();
    if extra > 0 {
        run.fail("opponent-sampled-off-menu", what, "0", &format!("{extra}"));
    }
}

/// the profile's CURRENT probability: at every epoch E the opponent is asked under policy A, the
/// stored policy of the same bucket is then replaced (verif_set_memory) or updated through the real
/// Profile::add_policy WITHOUT moving the epoch, and the opponent is asked again at the SAME epoch
/// on the same thread. the second answers must follow the weights Profile::weight reports after
/// the update (and the first ones policy A): per-edge 6 sigma on the summed per-draw weights
fn same_epoch_update_test(run: &mut Run, rng: &mut Rng, encoder: &Encoder, node: &robopoker::mccfr::node::Node, draws: usize, what: &str) {
    let bucket = node.bucket().clone();
    let menu: Vec<Edge> = Vec::<Edge>::from(bucket.2.clone());
    let n = menu.len();
    let mut order: Vec<usize> = (0..n).collect();
    for k in (1..n).rev() {
        order.swap(k, rng.below(k as u64 + 1) as usize);
    }
    let a: Vec<f32> = order.iter().map(|k| 0.5f32.powi(*k as i32) + 0.01).collect();
    let b: Vec<f32> = order.iter().map(|k| 0.5f32.powi((n - 1 - *k) as i32) + 0.01).collect();
    for how in ["verif_set_memory", "Profile::add_policy"] {
        let mut p = Profile::default();
        // [phase][edge] = (count, expected, variance)
        let mut acc = vec![vec![(0f64, 0f64, 0f64); n]; 2];
        let mut ok = true;
        for t in 0..draws {
            for (e, v) in menu.iter().zip(&a) {
                p.verif_set_memory(&bucket, e, 0.0, *v);
            }
            p.verif_set_epochs(1000 + t);
            for phase in 0..2 {
                if phase == 1 {
                    if how == "verif_set_memory" {
                        for (e, v) in menu.iter().zip(&b) {
                            p.verif_set_memory(&bucket, e, 0.0, *v);
                        }
                    } else {
                        let update: BTreeMap<Edge, f32> = menu.iter().zip(&b).map(|(e, v)| (*e, *v * 1.0e3)).collect();
                        p.add_policy(&bucket, &robopoker::mccfr::policy::Policy::from(update));
                    }
                }
                let weights: Vec<f64> = menu.iter().map(|e| p.weight(&bucket, e) as f64).collect();
                run.evaluations += 1;
                match catch(std::panic::AssertUnwindSafe(|| p.explore_one(encoder.branches(node), node))) {
                    Some(chosen) if chosen.len() == 1 => {
                        if let Some(i) = menu.iter().position(|e| e == chosen[0].edge()) {
                            acc[phase][i].0 += 1.0;
                        } else {
                            run.fail("opponent-sampled-off-menu", what, "a menu edge", &show_edge(chosen[0].edge()));
                        }
                    }
                    _ => {
                        run.fail("explore-one-not-one", what, "one branch", "none / several / panic");
                        ok = false;
                    }
                }
                for (i, w) in weights.iter().enumerate() {
                    acc[phase][i].1 += w;
                    acc[phase][i].2 += w * (1.0 - w);
                }
            }
            if !ok {
                break;
            }
        }
        run.spec_checked += 1;
        for phase in 0..2 {
            let table = menu.iter().zip(&acc[phase]).map(|(e, x)| format!("{}:expected={:.0}:n={}", show_edge(e), x.1, x.0)).collect::<Vec<_>>().join(" ");
            for (e, x) in menu.iter().zip(&acc[phase]) {
                if (x.0 - x.1).abs() > 6.0 * x.2.sqrt().max(1.0) {
                    run.fail(
                        if phase == 1 { "opponent-not-sampled-by-CURRENT-weight-after-same-epoch-update" } else { "opponent-not-sampled-by-weight" },
                        &format!("{what}: at each epoch 1000..{} stored policy A = [{}] is written, the opponent asked, then the policy is {} [{}] at the SAME epoch and the opponent asked again; {} answers, edge {}; per edge expected (sum of Profile::weight at the time of the draw) and count: {table}",
                            1000 + draws,
                            menu.iter().zip(&a).map(|(e, v)| format!("{}={v:.3}", show_edge(e))).collect::<Vec<_>>().join(" "),
                            if how == "verif_set_memory" { "replaced by B =" } else { "updated by Profile::add_policy with 1000 x B, B =" },
                            menu.iter().zip(&b).map(|(e, v)| format!("{}={v:.3}", show_edge(e))).collect::<Vec<_>>().join(" "),
                            if phase == 1 { "SECOND (after the update)" } else { "first" }, show_edge(e)),
                        &format!("about {:.0}", x.1),
                        &format!("{}", x.0),
                    );
                }
            }
        }
        run.count(&format!("same-epoch-update-test {how} menu-size={n}"));
    }
}

/// EXTREME policies at hand-planted opponent nodes (wide root menu, big blind's option, facing a
/// raise, facing an all-in, first to act on a chosen flop): numerically dead actions (stored
/// policy 1e-7 / 1e-9 / 1e-12 / f32::MIN_POSITIVE next to actions that carry all the mass, at the
/// front / middle / end of the menu), one dead action among live ones, and one dominant action
/// (0.97 / 0.999) with the rest sharing or nearly dead
fn extreme_policy_frequencies(run: &mut Run, rng: &mut Rng, draws: usize) {
    let encoder = Encoder::default();
    let all = (1u64 << 52) - 1;
    let h0 = rng.cards(2, all);
    let h1 = rng.cards(2, all & !h0);
    let flop = rng.cards(3, all & !h0 & !h1);
    let root = Game::root().verif_with_holes(&[Hole::from(Hand::from(h0)), Hole::from(Hand::from(h1))]);
    let mut tree = Tree::empty(P1);
    let r = tree.plant(Data::from((root, encoder.abstraction(&root)))).index();
    fn step(tree: &mut Tree, encoder: &Encoder, from: petgraph::graph::NodeIndex, want: &dyn Fn(&Edge) -> bool) -> Option<petgraph::graph::NodeIndex> {
        let b = {
            let node = tree.at(from);
            let mut bs = catch(std::panic::AssertUnwindSafe(|| encoder.branches(&node)))?;
            let i = bs.iter().position(|b| want(b.edge()))?;
            bs.remove(i)
        };
        Some(tree.fork(b).index())
    }
    let mut nodes: Vec<(petgraph::graph::NodeIndex, &str)> = vec![(r, "root (small blind to act)")];
    let limp = step(&mut tree, &encoder, r, &|e| matches!(e, Edge::Call));
    if let Some(limp) = limp {
        nodes.push((limp, "big blind's option after a limp"));
        if let Some(chance) = step(&mut tree, &encoder, limp, &|e| matches!(e, Edge::Check)) {
            let g = { tree.at(chance).data().game().apply(Action::Draw(Hand::from(flop))) };
            let f = tree.fork(Branch(Data::from((g, encoder.abstraction(&g))), Edge::Draw, chance)).index();
            nodes.push((f, "first to act on the flop after limp, check"));
            if let Some(bet) = step(&mut tree, &encoder, f, &|e| matches!(e, Edge::Raise(_))) {
                nodes.push((bet, "facing a bet on the flop"));
            }
        }
    }
    if let Some(x) = step(&mut tree, &encoder, r, &|e| matches!(e, Edge::Raise(_))) {
        nodes.push((x, "big blind facing a raise"));
    }
    if let Some(x) = step(&mut tree, &encoder, r, &|e| matches!(e, Edge::Shove)) {
        nodes.push((x, "big blind facing an all-in"));
    }
    let tinies: [(f32, &str); 5] = [(0.0, "exactly 0.0"), (1e-7, "1e-7"), (1e-9, "1e-9"), (1e-12, "1e-12"), (f32::MIN_POSITIVE, "f32::MIN_POSITIVE")];
    for (index, name) in nodes {
        let node = tree.at(index);
        if !matches!(node.player(), Player(Turn::Choice(_))) {
            continue;
        }
        let menu: Vec<Edge> = Vec::<Edge>::from(node.bucket().2.clone());
        let n = menu.len();
        if n < 2 {
            continue;
        }
        let mut policies: Vec<(String, Vec<f32>, usize)> = vec![];
        for (ti, (tiny, tname)) in tinies.iter().enumerate() {
            // A: all the mass on two actions (one when the menu has two), every other action dead
            let mut v = vec![*tiny; n];
            if n == 2 {
                v[(ti + 1) % 2] = 1.0;
            } else {
                let (a, b) = if ti == 0 { (n - 1, n / 2) } else {
                    loop {
                        let a = rng.below(n as u64) as usize;
                        let b = rng.below(n as u64) as usize;
                        if a != b && a.max(b) >= 2 { break (a, b); }
                    }
                };
                v[a] = 0.65;
                v[b] = 0.35;
            }
            policies.push((format!("mass on two actions, every other stored policy {tname}"), v, draws));
            // B: one dead action among live ones
            if n >= 3 {
                let dead = [0, n / 2, n - 1, rng.below(n as u64) as usize, 1][ti];
                let mut order: Vec<usize> = (0..n).collect();
                for k in (1..n).rev() {
                    order.swap(k, rng.below(k as u64 + 1) as usize);
                }
                let mut v: Vec<f32> = order.iter().map(|k| 0.5f32.powi(*k as i32) + 0.01).collect();
                v[dead] = *tiny;
                policies.push((format!("one action (menu position {dead}) with stored policy {tname} among live ones"), v.clone(), draws));
                if ti == 0 {
                    // exact zeros (a fully decayed / pruned row of a loaded blueprint) also in the middle,
                    // and two of them
                    let mut w = v.clone();
                    w[0] = w[n - 1].max(0.02);
                    w[n / 2] = 0.0;
                    policies.push((format!("one action (menu position {}) with stored policy exactly 0.0 among live ones", n / 2), w.clone(), draws));
                    w[0] = 0.0;
                    policies.push((format!("two actions (menu positions 0 and {}) with stored policy exactly 0.0 among live ones", n / 2), w, draws));
                }
            }
        }
        for dom in [0.97f32, 0.999] {
            let at = rng.below(n as u64) as usize;
            let mut v = vec![(1.0 - dom) / (n - 1) as f32; n];
            v[at] = dom;
            policies.push((format!("one dominant action {dom} (menu position {at}), the rest share the remainder"), v, 4 * draws));
        }
        if n >= 3 {
            let at = 1 + rng.below(n as u64 - 1) as usize;
            let mut v = vec![1e-9f32; n];
            v[at] = 0.999;
            v[(at + 1 + rng.below(n as u64 - 1) as usize) % n] = 0.001;
            policies.push((format!("one dominant action 0.999 (menu position {at}), one at 0.001, the rest 1e-9"), v, 4 * draws));
        }
        for (pname, values, t) in policies {
            let mut p2 = Profile::default();
            for (e, v) in menu.iter().zip(&values) {
                p2.verif_set_memory(node.bucket(), e, 0.0, *v);
            }
            let stored = menu.iter().zip(&values).map(|(e, v)| format!("{}={v:e}", show_edge(e))).collect::<Vec<_>>().join(" ");
            let what = format!("extreme-policy frequency test at the {name} (holes {} / {}, menu of {n}), {pname}; stored policy values by verif_set_memory: {stored}", show_cards(h0), show_cards(h1));
            frequency_test(run, &mut p2, &encoder, &node, t, &what);
            run.count(&format!("extreme-policy-test menu-size={n}"));
            run.distinct(&(index.index(), values.iter().map(|v| v.to_bits()).collect::<Vec<u32>>()));
        }
        if n >= 3 {
            let what = format!("same-epoch policy update at the {name} (holes {} / {}, menu of {n})", show_cards(h0), show_cards(h1));
            same_epoch_update_test(run, rng, &encoder, &node, draws, &what);
        }
    }
}

fn main() {
    let a = args();
    let mut rng = Rng::new(a.seed);
    let mut run = Run::new(&a.out);
    quiet_panics();
    let (epochs, batch, max_dump, freq_nodes, freq_draws, directed_styles, max_dump_directed) = if a.thorough() { (40usize, 6usize, 8000usize, 40usize, 4000usize, 5u64, 12000usize) } else { (14, 4, 5000, 16, 1500, 3u64, 7000usize) };
    let (line_repeats, structured_trees, cap_trees) = if a.thorough() { (6usize, 8usize, 4usize) } else { (2, 4, 2) };
    let (hit_walks, hit_plants) = if a.thorough() { (200000usize, 2000usize) } else { (30000, 150) };
    run.rule = format!(
        "{epochs} training epochs x {batch} trees from the real Blueprint::tree (empty profile at start, stand-in abstraction, traverser alternating, profile updated as Blueprint::solve does); every node of every tree goes through the clause-by-clause oracle; trees up to {max_dump} nodes are dumped for the Lean acceptor; opponent sampling: {freq_nodes} opponent nodes (menus of >= 3 edges preferred) x 2 policies (trained when non-uniform; skewed by verif_set_memory) x {freq_draws} epochs through the real explore_one, per-edge binomial 6 sigma against Profile::weight; plus {directed_styles} x 2 DIRECTED trees built on the real Tree::plant/fork + Encoder::branches + witness/explore_all with a scripted opponent (always min-raise / mostly raise / always call …) so that decision nodes deeper than the 16-edge window exist (dumped up to {max_dump_directed} nodes); plus trees at both sides of every phase boundary (Discount/Explore/Prune, epochs set by verif_set_epochs), in the Prune phase also after flooring the stored regret (<= REGRET_MIN) of some / all actions of root-level and deeper traverser buckets of the same forced deal; every leaf of every tree: Node::payoff of both players sums to zero, equals Settlement::pnl and equals an independent RULES payout (fold: the folder loses what he put in; showdown: best five by enumeration); STRUCTURED RARE leaves: 88 chosen deals (royal flush on the board in each suit, royal flush with one / two hole cards, straight flushes, quads, full houses, straights and flushes on the board with and without a playing hole card, controls) x 8 line styles (check-down, bet-and-call, all-in before the flop, all-in on a later street, fold, random walk, limp + check to the river / turn then a min-raise war up to the raise cap) x {line_repeats} planted by hand on Tree::plant/fork + Encoder::branches + Game::apply(Draw(chosen cards)), and {structured_trees} whole external-sampling trees with such a deal as the chance outcome (oracle + Lean acceptor); RAISE CAP: at every decision node of every tree and planted line the menu's raise edges are compared with a grid written from the property text (street table while n <= MAX_RAISE_REPEATS raises / all-ins were made in the round and a raise is legal, none beyond), {cap_trees} whole trees against an opponent who limps, checks to the river / turn and then min-re-raises while a raise is offered; EXACT-STACK raises: {hit_walks} random betting lines (harness-side arithmetic on the real Game API) are searched for nodes whose menu holds a raise edge with floor(pot x odds) == the actor's stack; up to {hit_plants} distinct (street, pot, stack, edge) states are planted on Tree::plant/fork + Encoder::branches: the build must not abort (tree-build-aborts; the three builders are also run under catch), the edge has a child, its concrete action is the all-in, every child's action is permitted by a harness-side rules reading (raise <= stack - 1, >= minimum raise; all-in = stack; also applied to every child of every tree); opponent sampling under EXTREME policies at 6 hand-planted nodes (menus of 13/12/7/8/13/2): actions with stored policy exactly 0.0 / 1e-7 / 1e-9 / 1e-12 / f32::MIN_POSITIVE next to live ones (front / middle / end of the menu), one dominant action 0.97 / 0.999, {freq_draws} (dominant: 4x) epochs each, same per-edge 6 sigma test; at the same nodes the stored policy is replaced (verif_set_memory) / updated (Profile::add_policy) WITHOUT moving the epoch and the opponent asked again at the same epoch on the same thread: the answers must follow the CURRENT weights; actionize's f32 product checked for every pot <= 2*STACK x every grid odds. distinct = (tree, node) / (deal, line) / (node, policy)"
    );
    // ---- the f32 product in Game::actionize equals floor(pot*num/den) (model assumption)
    for pot in 0..=(2 * STACK as i32) {
        for o in Odds::GRID.iter() {
            run.spec_checked += 1;
            let real = (pot as f32 * f32::from(*o)) as i16;
            let want = (pot * o.0 as i32 / o.1 as i32) as i16;
            if real != want {
                run.fail("actionize-f32-product-not-floor", &format!("pot {pot} odds {}:{}", o.0, o.1), &format!("{want}"), &format!("{real}"));
            }
        }
    }
    // ---- EXACT-STACK raises: menu edges worth exactly the actor's remaining stack
    {
        let hits = exact_stack_hits(&mut rng, hit_walks);
        run.count_n("exact-stack-raise states found (distinct board-cards, pot, stack, edge)", hits.len() as u64);
        let encoder = Encoder::default();
        for hit in hits.iter().take(hit_plants) {
            plant_hit(&mut run, &mut rng, &encoder, hit);
        }
        if run.notes.len() < 8 {
            run.notes.push(format!("exact-stack raise states (pot, stack, edge): {}", hits.iter().take(12).map(|h| format!("({}, {}, {})", h.pot, h.stack, show_edge(&h.edge))).collect::<Vec<_>>().join(" ")));
        }
    }
    let bp = Blueprint::verif_new(Profile::default(), Encoder::default());
    let profile = bp.verif_profile();
    let mut known: HashSet<Bucket> = HashSet::new();
    let mut tree_no = 0;
    let mut freq_done = 0usize;
    for epoch in 0..epochs {
        let mut cfs: Vec<Counterfactual> = vec![];
        for _ in 0..batch {
            tree_no += 1;
            if tree_no % 3 == 0 {
                robopoker::verif::set_draw_index(Some(rng.below(52) as u8));
            }
            let tree = catch(std::panic::AssertUnwindSafe(|| bp.verif_tree()));
            robopoker::verif::set_draw_index(None);
            let tree = match tree {
                Some(t) => t,
                None => {
                    run.fail("tree-build-aborts(Blueprint::tree)", &format!("Blueprint::tree, epoch {epoch} tree {tree_no}"), "a tree", "panic");
                    continue;
                }
            };
            let n = tree.all().len();
            let label = format!("epoch {epoch} tree {tree_no}");
            let dump = n <= max_dump;
            let line = { check_tree(&mut run, &mut rng, &tree, &profile.read().unwrap(), &mut known, &label, dump, true) };
            if let Some(line) = line {
                run.line(&line, "accept");
                run.count("tree-dumped");
            }
            run.count(&format!("tree-nodes<={}", match n { 0..=99 => 99, 100..=999 => 999, 1000..=2999 => 2999, _ => 99999 }));
            run.count(&format!("walker=P{}", epoch % 2));
            // ---- opponent sampling frequencies at fixed buckets vs Profile::weight, per EDGE.
            // Each chosen opponent node (menu of >= 3 edges when there is one) is tested twice on a
            // private profile holding only its bucket: with the trained policy copied from the real
            // profile (when it is clearly non-uniform) and with a strongly skewed policy written by
            // verif_set_memory (geometric masses 0.5^k + 0.01 assigned to the edges in a random
            // order), sweeping the epoch counter so that every draw has its own PRNG seed.
            if freq_done < freq_nodes && (freq_done < freq_nodes / 2 || epoch >= epochs / 2) {
                let walker = tree.walker();
                let nodes = tree.all();
                let opp: Vec<usize> = nodes.iter().enumerate()
                    .filter(|(_, nd)| matches!(nd.player(), Player(Turn::Choice(_))) && nd.player() != walker && nd.children().len() == 1)
                    .map(|(i, _)| i).collect();
                let wide: Vec<usize> = opp.iter().copied().filter(|&i| Vec::<Edge>::from(nodes[i].bucket().2.clone()).len() >= 3).collect();
                // prefer a node whose trained policy is already non-uniform
                let ratio = |i: usize| -> f32 {
                    let real = profile.read().unwrap();
                    let ws: Vec<f32> = Vec::<Edge>::from(nodes[i].bucket().2.clone()).iter().map(|e| real.weight(nodes[i].bucket(), e)).collect();
                    let hi = ws.iter().cloned().fold(0f32, f32::max);
                    let lo = ws.iter().cloned().fold(1f32, f32::min);
                    hi / lo.max(1e-9)
                };
                let trained: Vec<usize> = wide.iter().copied().filter(|&i| ratio(i) >= 2.0).collect();
                let cands = if !trained.is_empty() { &trained } else if !wide.is_empty() { &wide } else { &opp };
                if !cands.is_empty() {
                    let i = cands[rng.below(cands.len() as u64) as usize];
                    let node = &nodes[i];
                    let encoder = Encoder::default();
                    let menu: Vec<Edge> = Vec::<Edge>::from(node.bucket().2.clone());
                    for variant in ["trained", "skewed"] {
                        let mut p2 = Profile::default();
                        if variant == "trained" {
                            let real = profile.read().unwrap();
                            for e in &menu {
                                let (r, pol) = real.verif_memory(node.bucket(), e).expect("witnessed");
                                p2.verif_set_memory(node.bucket(), e, r, pol);
                            }
                        } else {
                            let mut order: Vec<usize> = (0..menu.len()).collect();
                            for k in (1..order.len()).rev() {
                                order.swap(k, rng.below(k as u64 + 1) as usize);
                            }
                            for (e, k) in menu.iter().zip(order) {
                                p2.verif_set_memory(node.bucket(), e, 0.0, 0.5f32.powi(k as i32) + 0.01);
                            }
                        }
                        let weights: Vec<f64> = menu.iter().map(|e| p2.weight(node.bucket(), e) as f64).collect();
                        let hi = weights.iter().cloned().fold(0f64, f64::max);
                        let lo = weights.iter().cloned().fold(1f64, f64::min);
                        if variant == "trained" && hi < 2.0 * lo {
                            run.count("frequency-test-trained-policy-near-uniform-skipped");
                            continue;
                        }
                        let mut hist: BTreeMap<Edge, u64> = BTreeMap::new();
                        for t in 0..freq_draws {
                            p2.verif_set_epochs(1000 + t);
                            let chosen = p2.explore_one(encoder.branches(node), node);
                            run.evaluations += 1;
                            if chosen.len() != 1 {
                                run.fail("explore-one-not-one", &format!("{label} node {i}"), "1", &format!("{}", chosen.len()));
                                continue;
                            }
                            *hist.entry(*chosen[0].edge()).or_insert(0) += 1;
                        }
                        run.spec_checked += 1;
                        let t = freq_draws as f64;
                        let table = menu.iter().zip(&weights).map(|(e, w)| format!("{e}:w={w:.3}:n={}", hist.get(e).unwrap_or(&0))).collect::<Vec<_>>().join(" ");
                        for (e, w) in menu.iter().zip(&weights) {
                            let cnt = *hist.get(e).unwrap_or(&0) as f64;
                            let sigma = (t * w * (1.0 - w)).sqrt().max(1.0);
                            if (cnt - t * w).abs() > 6.0 * sigma {
                                run.fail(
                                    "opponent-not-sampled-by-weight",
                                    &format!("{label} node {i} ({variant} policy, {t} draws over epochs) edge {e}; per edge weight and count: {table}"),
                                    &format!("about {:.0} (weight {w:.4})", t * w),
                                    &format!("{cnt}"),
                                );
                            }
                        }
                        let extra: u64 = hist.iter().filter(|(e, _)| !menu.contains(e)).map(|(_, c)| *c).sum();
                        if extra > 0 {
                            run.fail("opponent-sampled-off-menu", &format!("{label} node {i}"), "0", &format!("{extra}"));
                        }
                        run.count(&format!("frequency-test-{variant}-menu-size={}", menu.len()));
                        if run.notes.len() < 4 {
                            run.notes.push(format!("frequency test ({variant}) {label} node {i}: {table}"));
                        }
                    }
                    freq_done += 1;
                }
            }
            let infos: Vec<Info> = check_partition(&mut run, tree, &label);
            for info in infos {
                let roots: Vec<usize> = info.roots().iter().map(|r| r.index().index()).collect();
                let p = profile.read().unwrap();
                match catch(std::panic::AssertUnwindSafe(|| p.counterfactual(info))) {
                    Some(cf) => cfs.push(cf),
                    None => run.fail("training-step-panics-on-information-set", &format!("{label} roots {roots:?}"), "regret and policy vectors", "panic"),
                }
            }
        }
        let mut p = profile.write().unwrap();
        for cf in cfs {
            let bucket = cf.info().node().bucket().clone();
            p.add_regret(&bucket, cf.regret());
            p.add_policy(&bucket, cf.policy());
        }
        p.next();
    }
    // ---- directed long hands: deep decision nodes (> 16 edges) are built on purpose
    let base_epochs = { profile.read().unwrap().epochs() };
    for style in [9u64, 0, 2, 1, 3].into_iter().take(directed_styles as usize) {
        for parity in 0..2usize {
            let tree = {
                let mut p = profile.write().unwrap();
                p.verif_set_epochs(base_epochs + parity);
                directed_tree(&mut p, &Encoder::default(), style, &mut rng, None)
            };
            let tree = match tree {
                Ok(t) => t,
                Err(at) => {
                    run.fail("tree-build-aborts(directed builder)", &format!("directed builder (Tree::fork + Encoder::branches + witness / explore_all), opponent script {style}: {at}"), "the children of the node, one per menu edge", "panic inside Encoder::branches (Game::apply refuses the action the edge was turned into)");
                    continue;
                }
            };
            let n = tree.all().len();
            let label = format!("directed tree style {style} walker P{}", (base_epochs + parity) % 2);
            let line = { check_tree(&mut run, &mut rng, &tree, &profile.read().unwrap(), &mut known, &label, n <= max_dump_directed, false) };
            if let Some(line) = line {
                run.line(&line, "accept");
                run.count("directed-tree-dumped");
            }
            run.count(&format!("directed-tree-nodes<={}", match n { 0..=999 => 999, 1000..=4999 => 4999, 5000..=19999 => 19999, _ => 999999 }));
            check_partition(&mut run, tree, &label);
        }
    }
    // ---- every training phase: Discount / Explore / Prune boundaries, both traversers; in the
    // Prune phase additionally with traverser actions whose stored regret is at or below REGRET_MIN
    // ---- STRUCTURED RARE leaves: chosen deals (strongest possible hand on the board / in one hand,
    // straight flushes, quads, full houses, boards that play for both …) planted by hand along
    // single lines (check-down, bet-and-call, all-in, fold, random walk) …
    let deals = structured_deals(&mut rng);
    {
        let encoder = Encoder::default();
        for deal in deals.iter() {
            for style in 0..8u64 {
                for _ in 0..line_repeats {
                    line_hand(&mut run, &mut rng, &encoder, deal, style);
                }
            }
        }
    }
    // … and as the chance outcome of whole external-sampling trees (traverser explores every
    // action, scripted opponent), which go through the full oracle and the Lean acceptor
    let structured: Vec<(&str, usize, u64, usize)> = vec![
        ("royal flush ON THE BOARD", 0, 2, 0),
        ("royal flush ON THE BOARD", 1, 10, 1),
        ("king-high straight flush on the board, one seat holds the ace of the suit (royal flush with one hole card)", 2, 2, 1),
        ("quads on the board with a king, no ace out: board plays for both", 3, 11, 0),
        ("royal flush ON THE BOARD", 2, 2, 1),
        ("royal flush with two hole cards against a lower straight flush", 0, 2, 0),
        ("five-high straight flush (wheel) on the board, plays for both", 1, 10, 0),
        ("full house on the board, one seat holds the fourth king", 3, 2, 1),
    ];
    for (name, nth, style, parity) in structured.into_iter().take(structured_trees) {
        let deal = match deals.iter().filter(|d| d.name == name).nth(nth) {
            Some(d) => d,
            None => continue,
        };
        let tree = {
            let mut p = profile.write().unwrap();
            p.verif_set_epochs(base_epochs + parity);
            directed_tree(&mut p, &Encoder::default(), style, &mut rng, Some(deal))
        };
        let tree = match tree {
            Ok(t) => t,
            Err(at) => {
                run.fail("tree-build-aborts(directed builder)", &format!("directed builder (Tree::fork + Encoder::branches + witness / explore_all), opponent script {style}: {at}"), "the children of the node, one per menu edge", "panic inside Encoder::branches (Game::apply refuses the action the edge was turned into)");
                continue;
            }
        };
        let n = tree.all().len();
        let label = format!("structured tree: {}, opponent script {style}, walker P{}", deal.describe(), (base_epochs + parity) % 2);
        let line = { check_tree(&mut run, &mut rng, &tree, &profile.read().unwrap(), &mut known, &label, n <= max_dump_directed, false) };
        if let Some(line) = line {
            run.line(&line, "accept");
            run.count("structured-tree-dumped");
        }
        run.count(&format!("structured-tree-nodes<={}", match n { 0..=99 => 99, 100..=999 => 999, 1000..=4999 => 4999, _ => 999999 }));
        check_partition(&mut run, tree, &label);
    }
    // ---- the raise cap of the late betting rounds: whole trees against an opponent who limps,
    // checks to the river (turn) and then re-raises the minimum while the menu lets him
    for (style, parity) in [(12u64, 0usize), (13, 1), (12, 1), (13, 0)].into_iter().take(cap_trees) {
        let tree = {
            let mut p = profile.write().unwrap();
            p.verif_set_epochs(base_epochs + parity);
            directed_tree(&mut p, &Encoder::default(), style, &mut rng, None)
        };
        let tree = match tree {
            Ok(t) => t,
            Err(at) => {
                run.fail("tree-build-aborts(directed builder)", &format!("directed builder (Tree::fork + Encoder::branches + witness / explore_all), opponent script {style}: {at}"), "the children of the node, one per menu edge", "panic inside Encoder::branches (Game::apply refuses the action the edge was turned into)");
                continue;
            }
        };
        let n = tree.all().len();
        let label = format!("raise-cap tree: opponent limps, checks to the {} and then re-raises the minimum while a raise is offered, walker P{}", if style == 12 { "river" } else { "turn" }, (base_epochs + parity) % 2);
        let line = { check_tree(&mut run, &mut rng, &tree, &profile.read().unwrap(), &mut known, &label, n <= max_dump_directed, false) };
        if let Some(line) = line {
            run.line(&line, "accept");
            run.count("raise-cap-tree-dumped");
        }
        run.count(&format!("raise-cap-tree-nodes<={}", match n { 0..=999 => 999, 1000..=4999 => 4999, 5000..=19999 => 19999, _ => 999999 }));
        check_partition(&mut run, tree, &label);
    }
    // ---- opponent sampling under EXTREME policies (numerically dead actions, dominant actions)
    extreme_policy_frequencies(&mut run, &mut rng, freq_draws);
    let (d, pr) = (robopoker::verif::CFR_DISCOUNT_PHASE, robopoker::verif::CFR_PRUNNING_PHASE);
    for e in [d - 1, d, d + 1, pr - 1, pr, pr + 1, pr + 2] {
        let force = rng.below(52) as u8;
        { profile.write().unwrap().verif_set_epochs(e); }
        robopoker::verif::set_draw_index(Some(force));
        let tree = catch(std::panic::AssertUnwindSafe(|| bp.verif_tree()));
        robopoker::verif::set_draw_index(None);
        let tree = match tree {
            Some(t) => t,
            None => {
                run.fail("tree-build-aborts(Blueprint::tree)", &format!("Blueprint::tree, phase epoch {e} forced deal {force}"), "a tree", "panic");
                continue;
            }
        };
        let n = tree.all().len();
        let label = format!("phase epoch {e} forced deal {force}");
        let line = { check_tree(&mut run, &mut rng, &tree, &profile.read().unwrap(), &mut known, &label, n <= max_dump / 2, true) };
        if let Some(line) = line {
            run.line(&line, "accept");
        }
        run.count(&format!("phase-tree epoch={}", if e < d { "discount" } else if e < pr { "explore" } else { "prune" }));
        if e >= pr {
            // floor regrets of some traverser information sets of this very tree, then sample it again
            let walker = tree.walker();
            let nodes = tree.all();
            let wn: Vec<usize> = (0..nodes.len()).filter(|&i| nodes[i].player() == walker && !nodes[i].children().is_empty()).collect();
            if !wn.is_empty() {
                let mut picks = vec![wn[0]];
                for _ in 0..4 {
                    picks.push(wn[rng.below(wn.len() as u64) as usize]);
                }
                let mut p = profile.write().unwrap();
                for (k, &i) in picks.iter().enumerate() {
                    let bucket = nodes[i].bucket().clone();
                    let menu: Vec<Edge> = Vec::<Edge>::from(bucket.2.clone());
                    for (j, edge) in menu.iter().enumerate() {
                        // k = 0 (root-most): first and last action; k = 1: every action; else one action
                        let hit = match k { 0 => j == 0 || j + 1 == menu.len(), 1 => true, _ => j == k % menu.len() };
                        if hit {
                            let (_, pol) = p.verif_memory(&bucket, edge).expect("witnessed");
                            let regret = if j % 2 == 0 { robopoker::verif::REGRET_MIN } else { -1.0e6 };
                            p.verif_set_memory(&bucket, edge, regret, pol);
                        }
                    }
                }
                drop(p);
                robopoker::verif::set_draw_index(Some(force));
                let tree2 = catch(std::panic::AssertUnwindSafe(|| bp.verif_tree()));
                robopoker::verif::set_draw_index(None);
                let tree2 = match tree2 {
                    Some(t) => t,
                    None => {
                        run.fail("tree-build-aborts(Blueprint::tree)", &format!("Blueprint::tree, phase epoch {e} forced deal {force}, floored regrets"), "a tree", "panic");
                        continue;
                    }
                };
                let n2 = tree2.all().len();
                let label = format!("phase epoch {e} forced deal {force}, regrets of {} traverser information sets at or below REGRET_MIN", picks.len());
                let line = { check_tree(&mut run, &mut rng, &tree2, &profile.read().unwrap(), &mut known, &label, n2 <= max_dump / 2, true) };
                if let Some(line) = line {
                    run.line(&line, "accept");
                }
                run.count("phase-tree prune+floored-regrets");
            }
        }
    }
    run.notes.push("deals come from the code's own thread_rng (every third tree: forced draw index from VERIF_SEED); each dumped tree is self-contained in ops.txt".into());
    // truncate long samples (tree dumps) so that the evidence stays readable
    for s in run.samples.iter_mut() {
        if s.len() > 400 {
            let cut = (0..=400).rev().find(|&i| s.is_char_boundary(i)).unwrap_or(0);
            let tail = s[s.len().saturating_sub(60)..].to_string();
            s.truncate(cut);
            s.push_str(" … ");
            s.push_str(&tail);
        }
    }
    run.finish();
}
