// C17 — the real Table::save / Table::load of Profile (blueprint), Metric and Lookup (isomorphism),
// run inside a per-run scratch directory, vs the Lean byte-level model (`RP.Pgcopy`), plus the
// search oracle: an independent, length-driven reader of the PostgreSQL binary COPY format in the
// style of `Writer::stream` that checks signature, field counts, field lengths against the declared
// column types, the trailer, the *meaning* of every field (read in the order of the COPY column
// list) and the bit-for-bit equality of the reloaded table.
#[path = "../c17_shared.rs"]
mod shared;
use robopoker::cards::isomorphism::Isomorphism;
use robopoker::cards::street::Street;
use robopoker::clustering::abstraction::Abstraction;
use robopoker::clustering::histogram::Histogram;
use robopoker::clustering::lookup::Lookup;
use robopoker::clustering::transitions::Decomp;
use robopoker::clustering::metric::Metric;
use robopoker::mccfr::bucket::Bucket;
use robopoker::mccfr::edge::Edge;
use robopoker::mccfr::profile::Profile;
use robopoker::save::upload::Table;
use rpharness::*;
use shared::*;
use std::collections::BTreeMap;

const HEX_LIMIT: usize = 700;
const ROWS_LIMIT: usize = 8;

/// the answer line: what the file is and what came back
fn answer(big: bool, file: &Option<(String, Vec<u8>)>, reloaded: &Option<Vec<Vec<u64>>>) -> String {
    let mut s = String::new();
    if big {
        return match file {
            None => "panic".into(),
            Some((_, bytes)) => format!("len={} fnv={:016x}", bytes.len(), fnv(bytes)),
        };
    }
    match file {
        None => return "panic".into(),
        Some((_, bytes)) => {
            s.push_str(&format!("len={} fnv={:016x}", bytes.len(), fnv(bytes)));
            if bytes.len() <= HEX_LIMIT {
                s.push_str(&format!(" hex={}", hex(bytes)));
            }
        }
    }
    match reloaded {
        None => s.push_str(" load=panic"),
        Some(rows) => {
            let rows = sorted(rows.clone());
            s.push_str(&format!(" load=ok n={} cfnv={:016x}", rows.len(), fnv_rows(&rows)));
            if rows.len() <= ROWS_LIMIT {
                s.push_str(&format!(" rows={}", if rows.is_empty() { "-".to_string() } else { flat(&rows).replace(' ', ",") }));
            }
        }
    }
    s
}

/// distribution: what the save wrote over
fn over_count(c: &mut Ctx, table: &str, before: &[(String, Vec<u8>)], file: &Option<(String, Vec<u8>)>) {
    if !c.keep {
        return;
    }
    if let Some((name, bytes)) = file {
        let cls = match before.iter().find(|f| &f.0 == name) {
            None => "fresh name",
            Some((_, old)) if old.len() > bytes.len() => "over a LONGER file",
            Some((_, old)) if old.len() < bytes.len() => "over a shorter file",
            Some((_, old)) if old == bytes => "over an identical file",
            Some(_) => "over a file of the same length, different content",
        };
        c.run.count(&format!("sequence {table}: save {cls}"));
    }
}

/// what the file must be, byte for byte, written down from the PostgreSQL format description and
/// the table's own declarations: signature, zero flags, zero extension length; per row the number
/// of COPY columns, per column the width of its declared type and the value the column name
/// denotes; the trailer; end of file.
fn expected_encoding(decl: &(Vec<String>, Vec<String>, Vec<(String, String)>), roles: &[&str], orig: &[Vec<u64>]) -> Option<Vec<u8>> {
    let (cols, types, _) = decl;
    let mut out: Vec<u8> = b"PGCOPY\n\xff\r\n\0".to_vec();
    out.extend([0u8; 8]);
    for row in orig {
        out.extend((cols.len() as u16).to_be_bytes());
        for (c, t) in cols.iter().zip(types.iter()) {
            let v = row[roles.iter().position(|r| r == c)?];
            match type_width(t)? {
                8 => {
                    out.extend(8u32.to_be_bytes());
                    out.extend(v.to_be_bytes());
                }
                4 => {
                    out.extend(4u32.to_be_bytes());
                    out.extend((v as u32).to_be_bytes());
                }
                _ => return None,
            }
        }
    }
    out.extend(0xFFFFu16.to_be_bytes());
    Some(out)
}

/// the file part of the oracle alone (transitions)
fn file_oracle(run: &mut Run, op: &str, decl: &(Vec<String>, Vec<String>, Vec<(String, String)>), roles: &[&str], orig: &[Vec<u64>], bytes: &[u8]) {
    // reload part is skipped by handing in the original rows as "reloaded"
    oracle(run, "", op, decl, roles, orig, bytes, &Some(orig.to_vec()), None);
}

/// the search oracle on one saved file. `roles` names the components of `orig` rows.
fn oracle(
    run: &mut Run, table: &str, op: &str, decl: &(Vec<String>, Vec<String>, Vec<(String, String)>), roles: &[&str],
    orig: &[Vec<u64>], bytes: &[u8], reloaded: &Option<Vec<Vec<u64>>>, typed_equal: Option<bool>,
) {
    let (cols, types, _) = decl;
    let short = |s: &str| if s.len() > 300 { format!("{}…", &s[..300]) } else { s.to_string() };
    let op = short(op);
    // the COMPLETE file (length and every byte) is the encoding of the table just saved
    run.spec_checked += 1;
    match expected_encoding(decl, roles, orig) {
        None => run.fail("declared-layout-not-encodable", &op, "known column names and types", &format!("{:?} {:?}", cols, types)),
        Some(want) => {
            if bytes.len() > want.len() && bytes[..want.len()] == want[..] {
                run.fail("file-has-bytes-after-trailer", &op, &format!("{} bytes, end of file right after the trailer", want.len()), &format!("{} bytes: {} bytes follow the trailer", bytes.len(), bytes.len() - want.len()));
            } else if bytes != &want[..] {
                let k = bytes.iter().zip(want.iter()).position(|(a, b)| a != b).unwrap_or(bytes.len().min(want.len()));
                run.fail("file-not-exactly-encoding", &op, &format!("{} bytes", want.len()), &format!("{} bytes, first difference at byte {k}", bytes.len()));
            }
        }
    }
    run.spec_checked += 1;
    match pg_read(bytes) {
        Err(e) if e.contains("after the trailer") => run.fail("file-has-bytes-after-trailer", &op, "end of file right after the trailer (strict reader)", &e),
        Err(e) => run.fail("file-not-wellformed-copy-stream", &op, "signature, rows, trailer", &e),
        Ok(rows) => {
            if rows.len() != orig.len() {
                run.fail("file-row-count", &op, &format!("{} rows", orig.len()), &format!("{} rows", rows.len()));
            }
            for (j, row) in rows.iter().enumerate() {
                if row.len() != cols.len() || row.len() != types.len() {
                    run.fail("row-field-count", &op, &format!("{} fields (COPY list) / {} (columns())", cols.len(), types.len()), &format!("row {j}: {} fields", row.len()));
                    break;
                }
                let mut bad = false;
                for (i, f) in row.iter().enumerate() {
                    if type_width(&types[i]) != Some(f.len()) {
                        run.fail("field-length-vs-declared-type", &op, &format!("column {} declared {}", cols[i], types[i]), &format!("row {j}: length {}", f.len()));
                        bad = true;
                        break;
                    }
                    let want = roles.iter().position(|r| *r == cols[i]).and_then(|p| orig.get(j).map(|o| o[p]));
                    match want {
                        None => {
                            if orig.get(j).is_some() {
                                run.fail("column-name-unknown", &op, "a column of the table's key or value", &cols[i]);
                                bad = true;
                                break;
                            }
                        }
                        Some(w) => {
                            if w != f.bits() {
                                run.fail("column-does-not-carry-its-value", &op, &format!("row {j} column {} = {:#x}", cols[i], w), &format!("{:#x}", f.bits()));
                                bad = true;
                                break;
                            }
                        }
                    }
                }
                if bad {
                    break;
                }
            }
        }
    }
    run.spec_checked += 1;
    match reloaded {
        None => run.fail("load-of-saved-file-panics", &op, "the saved table", "panic"),
        Some(rows) => {
            let a = sorted(rows.clone());
            let b = sorted(orig.to_vec());
            if a != b {
                let k = a.iter().zip(b.iter()).position(|(x, y)| x != y).unwrap_or(a.len().min(b.len()));
                run.fail("reload-differs", &op, &format!("{} rows; first difference at sorted row {k}: {:?}", b.len(), b.get(k)), &format!("{} rows; {:?}", a.len(), a.get(k)));
                // what kind of difference: keys = all columns but the FLOAT4 ones; group = the key
                // without its last column when the key has several (blueprint: the bucket)
                let nk = types.iter().filter(|t| type_width(t) == Some(8)).count().max(1).min(b.first().map(|r| r.len()).unwrap_or(1));
                use std::collections::{BTreeMap as M, BTreeSet as S};
                let saved: M<Vec<u64>, Vec<u64>> = b.iter().map(|r| (r[..nk].to_vec(), r[nk..].to_vec())).collect();
                let got: M<Vec<u64>, Vec<u64>> = a.iter().map(|r| (r[..nk.min(r.len())].to_vec(), r[nk.min(r.len())..].to_vec())).collect();
                let lost: Vec<&Vec<u64>> = saved.keys().filter(|k| !got.contains_key(*k)).collect();
                let added = got.keys().filter(|k| !saved.contains_key(*k)).count();
                let changed = saved.iter().filter(|(k, v)| got.get(*k).map(|w| w != *v).unwrap_or(false)).count();
                if !lost.is_empty() {
                    if nk > 1 {
                        let groups_got: S<Vec<u64>> = got.keys().map(|k| k[..nk - 1].to_vec()).collect();
                        let whole = lost.iter().filter(|k| !groups_got.contains(&k[..nk - 1].to_vec())).count();
                        if whole > 0 {
                            run.fail("reload-loses-buckets", &op, &format!("{} rows", saved.len()), &format!("{whole} rows of buckets that are missing entirely, e.g. {:?}", lost[0]));
                        }
                        if whole < lost.len() {
                            let ex = lost.iter().find(|k| groups_got.contains(&k[..nk - 1].to_vec())).unwrap();
                            run.fail("reload-loses-edges", &op, &format!("{} rows", saved.len()), &format!("{} rows missing from buckets that are still present, e.g. {:?}", lost.len() - whole, ex));
                        }
                    } else {
                        run.fail("reload-loses-rows", &op, &format!("{} rows", saved.len()), &format!("{} keys missing, e.g. {:?}", lost.len(), lost[0]));
                    }
                }
                if added > 0 {
                    run.fail("reload-adds-rows", &op, &format!("{} rows", saved.len()), &format!("{added} keys that were never saved"));
                }
                if changed > 0 {
                    run.fail("reload-changes-values", &op, "bit-identical values", &format!("{changed} keys with other values"));
                }
            }
            if typed_equal == Some(false) {
                run.fail("reload-differs-typed", &op, "same keys and bit-identical values", "typed comparison differs");
            }
        }
    }
    let _ = table;
}

/// static part: COPY list vs columns() vs CREATE TABLE
fn declared_consistent(run: &mut Run, table: &str, decl: &(Vec<String>, Vec<String>, Vec<(String, String)>), roles: &[&str]) {
    let (cols, types, creates) = decl;
    run.spec_checked += 1;
    if cols.len() != types.len() {
        run.fail("copy-list-vs-columns-length", table, &format!("{} types", cols.len()), &format!("{}", types.len()));
    }
    let mut seen = std::collections::BTreeSet::new();
    for (i, c) in cols.iter().enumerate() {
        if !seen.insert(c.clone()) {
            run.fail("copy-list-duplicate-column", table, "distinct columns", c);
        }
        if !roles.contains(&c.as_str()) {
            run.fail("column-name-unknown", table, &format!("one of {:?}", roles), c);
        }
        match creates.iter().find(|(n, _)| n == c) {
            None => run.fail("copy-column-not-in-create-table", table, c, &format!("{:?}", creates)),
            Some((_, ty)) => {
                if types.get(i).and_then(|t| type_width(t)) != type_width(ty) || type_width(ty).is_none() {
                    run.fail("create-table-type-vs-columns", table, &format!("{c}: {:?}", types.get(i)), ty);
                }
            }
        }
    }
    for r in roles {
        if !cols.iter().any(|c| c == r) {
            run.fail("value-not-in-copy-list", table, r, &format!("{:?}", cols));
        }
    }
}

fn size_class(n: usize) -> &'static str {
    match n {
        0 => "rows=0",
        1 => "rows=1",
        2..=9 => "rows=2-9",
        10..=99 => "rows=10-99",
        100..=999 => "rows=100-999",
        _ => "rows>=1000",
    }
}

struct Ctx {
    run: Run,
    scr: Scratch,
    /// sequence mode: the scratch directory is NOT emptied before a save, so save() writes over
    /// whatever an earlier save left under the same name
    keep: bool,
    /// the other scratch directory (sequences alternate between the two within this one process)
    other: Scratch,
    alternate: bool,
    /// what was last saved where: (directory, file name) -> sorted rows
    memory: BTreeMap<(String, String), Vec<Vec<u64>>>,
    /// large tables: the model is asked for the file only (`saveb`), the reload is checked by the oracle
    big: bool,
    /// very large tables judged by the oracle only (no line for the model driver)
    noline: bool,
}
impl Ctx {
    fn emit(&mut self, op: &str, ans: &str) {
        if self.noline {
            self.run.count("large table judged by the oracle only (no model line)");
        } else {
            self.run.line(op, ans);
        }
    }
    fn here(&self) -> String {
        self.scr.dir.to_string_lossy().into_owned()
    }
    fn remember(&mut self, name: &str, rows: &[Vec<u64>]) {
        if self.keep {
            let k = (self.here(), name.to_string());
            self.memory.insert(k, sorted(rows.to_vec()));
        }
    }
    fn verb(&self) -> &'static str {
        if self.big { "saveb" } else { "save" }
    }
    fn before_save(&self) -> Vec<(String, Vec<u8>)> {
        if self.keep {
            self.scr.files()
        } else {
            self.scr.clean();
            vec![]
        }
    }
}
/// the file a save must have produced: in a fresh directory the only file there; in sequence mode
/// the file of the expected name
fn pick(files: &[(String, Vec<u8>)], keep: bool, expected: Option<String>) -> Option<(String, Vec<u8>)> {
    if keep {
        expected.and_then(|n| files.iter().find(|f| f.0 == n).cloned())
    } else if files.len() == 1 {
        Some(files[0].clone())
    } else {
        None
    }
}
/// file name rule of Metric::save, restated: the entry count selects the street
fn metric_expected_name(n: usize) -> String {
    let c2 = |k: usize| k * k.saturating_sub(1) / 2;
    let s = if n == c2(Street::Rive.k()) { Street::Rive } else if n == c2(Street::Turn.k()) { Street::Turn } else if n == c2(Street::Flop.k()) { Street::Flop } else if n == c2(Street::Pref.k()) { Street::Pref } else { Street::Rive };
    format!("metric.{s}")
}

fn case_profile(c: &mut Ctx, rows: &[(Bucket, Edge, u32, u32)], decl: &(Vec<String>, Vec<String>, Vec<(String, String)>)) {
    let p = build_profile(rows);
    case_profile_obj(c, p, intended_profile(rows), decl, "set through the hook");
}
/// values reached through add_regret / add_policy (never through the setters load() uses)
fn case_profile_updates(c: &mut Ctx, rng: &mut Rng, rows: &[(Bucket, Edge, u32, u32)], decl: &(Vec<String>, Vec<String>, Vec<(String, String)>)) {
    let (p, tracked) = build_profile_by_updates(rng, rows);
    for t in &tracked {
        let r = f32::from_bits(t.2);
        if r < -3e5 {
            c.run.count("blueprint regret below REGRET_MIN reached by add_regret");
        } else if r.abs() > 3e5 {
            c.run.count("blueprint regret beyond 3e5 reached by add_regret");
        }
    }
    case_profile_obj(c, p, tracked, decl, "reached by add_regret/add_policy");
}
/// `typed` is the harness's own record of what the profile must hold (never read from the object)
fn case_profile_obj(c: &mut Ctx, p: Profile, typed: Vec<(Bucket, Edge, u32, u32)>, decl: &(Vec<String>, Vec<String>, Vec<(String, String)>), how: &str) {
    const ROLES: [&str; 6] = ["past", "present", "future", "edge", "regret", "policy"];
    let orig = typed_rows(&typed);
    c.run.spec_checked += 1;
    c.run.count(&format!("blueprint built: values {how}"));
    let held = profile_typed(&p);
    if held != typed {
        let k = held.iter().zip(typed.iter()).position(|(a, b)| a != b).unwrap_or(held.len().min(typed.len()));
        c.run.fail("profile-holds-other-values-than-given", &format!("blueprint {} rows, values {how}", typed.len()), &format!("row {k}: {:?}", typed.get(k).map(|t| (t.2, t.3))), &format!("{:?}", held.get(k).map(|t| (t.2, t.3))));
    }
    let before = c.before_save();
    c.run.evaluations += 1;
    let saved = catch(std::panic::AssertUnwindSafe(|| p.save()));
    let files = c.scr.files();
    let op = format!("{} blueprint {} {}", c.verb(), orig.len(), flat(&orig));
    let file = if saved.is_some() { pick(&files, c.keep, Some("blueprint".into())).filter(|f| f.0 == "blueprint") } else { None };
    over_count(c, "blueprint", &before, &file);
    let loaded = if file.is_some() { catch(|| profile_load()) } else { None };
    let reloaded = loaded.as_ref().map(|l| profile_rows(l));
    c.emit(&op, &answer(c.big, &file, &reloaded));
    c.run.count(&format!("blueprint {}", size_class(orig.len())));
    for r in &typed {
        let k = match r.1 {
            Edge::Draw => "draw",
            Edge::Fold => "fold",
            Edge::Check => "check",
            Edge::Call => "call",
            Edge::Shove => "shove",
            Edge::Raise(_) => "raise",
        };
        c.run.count(&format!("blueprint edge={k}"));
        c.run.count(&format!("blueprint street={}", r.0 .1.street()));
        for v in [r.2, r.3] {
            let f = f32::from_bits(v);
            let cl = if f.is_nan() { "nan" } else if f.is_infinite() { "inf" } else if f == 0.0 { "zero" } else if f.is_sign_negative() { "negative" } else if !f.is_normal() { "subnormal" } else { "positive" };
            c.run.count(&format!("float {cl}"));
        }
    }
    if !orig.is_empty() {
        c.run.distinct(&("blueprint", &orig));
    }
    match &file {
        None => c.run.fail(if saved.is_some() { "saved-file-not-under-current-directory" } else { "save-fails" }, &op[..op.len().min(300)], "file pgcopy/blueprint under the current working directory", &format!("panic={} files={:?}", saved.is_none(), files.iter().map(|f| &f.0).collect::<Vec<_>>())),
        Some((_, bytes)) => {
            c.remember("blueprint", &orig);
            let teq = loaded.as_ref().map(|l| profile_typed(l) == typed);
            oracle(&mut c.run, "blueprint", &op, decl, &ROLES, &orig, bytes, &reloaded, teq);
        }
    }
}

fn case_metric(c: &mut Ctx, rows: &[(u64, u32)], decl: &(Vec<String>, Vec<String>, Vec<(String, String)>)) {
    const ROLES: [&str; 2] = ["xor", "dx"];
    let m = build_metric(rows);
    let orig = intended_metric(rows); // the harness's own record, not read back from the object
    let typed = metric_typed(&m);
    if metric_rows(&m) != orig {
        c.run.fail("metric-holds-other-values-than-given", &format!("metric {} rows", orig.len()), "the entries given", "different entries");
    }
    let before = c.before_save();
    c.run.evaluations += 1;
    let saved = catch(std::panic::AssertUnwindSafe(|| m.save()));
    let files = c.scr.files();
    let op = format!("{} metric {} {}", c.verb(), orig.len(), flat(&orig));
    let picked = if saved.is_some() { pick(&files, c.keep, Some(metric_expected_name(orig.len()))) } else { None };
    let street = picked.as_ref().and_then(|f| f.0.strip_prefix("metric.")).and_then(street_of_suffix);
    let file = if street.is_some() { picked } else { None };
    if let Some(f) = &file {
        if f.0 != metric_expected_name(orig.len()) {
            c.run.fail("metric-file-name", &op[..op.len().min(200)], &metric_expected_name(orig.len()), &f.0);
        }
    }
    over_count(c, "metric", &before, &file);
    let loaded = match (&file, street) {
        (Some(_), Some(s)) => catch(move || metric_load(s)),
        _ => None,
    };
    let reloaded = loaded.as_ref().map(|l| metric_rows(l));
    c.emit(&op, &answer(c.big, &file, &reloaded));
    c.run.count(&format!("metric {}", size_class(orig.len())));
    if let Some(s) = street {
        c.run.count(&format!("metric file=metric.{s}"));
    }
    if !orig.is_empty() {
        c.run.distinct(&("metric", &orig));
    }
    match &file {
        None => c.run.fail(if saved.is_some() { "saved-file-not-under-current-directory" } else { "save-fails" }, &op[..op.len().min(300)], "one file pgcopy/metric.<street> under the current working directory", &format!("panic={} files={:?}", saved.is_none(), files.iter().map(|f| &f.0).collect::<Vec<_>>())),
        Some((_, bytes)) => {
            let nm = file.as_ref().map(|f| f.0.clone()).unwrap_or_default();
            c.remember(&nm, &orig);
            let teq = loaded.as_ref().map(|l| metric_typed(l) == typed);
            oracle(&mut c.run, "metric", &op, decl, &ROLES, &orig, bytes, &reloaded, teq);
        }
    }
}

fn case_lookup(c: &mut Ctx, map: &BTreeMap<Isomorphism, Abstraction>, decl: &(Vec<String>, Vec<String>, Vec<(String, String)>)) {
    const ROLES: [&str; 2] = ["obs", "abs"];
    let orig = lookup_rows(map);
    let l = Lookup::from(map.clone());
    let before = c.before_save();
    c.run.evaluations += 1;
    let saved = catch(std::panic::AssertUnwindSafe(|| l.save()));
    let files = c.scr.files();
    let op = format!("{} lookup {} {}", c.verb(), orig.len(), flat(&orig));
    let expected = map.keys().next().map(|k| format!("isomorphism.{}", k.0.street()));
    let picked = if saved.is_some() { pick(&files, c.keep, expected) } else { None };
    let street = picked.as_ref().and_then(|f| f.0.strip_prefix("isomorphism.")).and_then(street_of_suffix);
    let file = if street.is_some() { picked } else { None };
    over_count(c, "lookup", &before, &file);
    let loaded = match (&file, street) {
        (Some(_), Some(s)) => catch(move || BTreeMap::from(lookup_load(s))),
        _ => None,
    };
    let reloaded = loaded.as_ref().map(|l| lookup_rows(l));
    c.emit(&op, &answer(c.big, &file, &reloaded));
    c.run.count(&format!("lookup {}", size_class(orig.len())));
    if let Some(s) = street {
        c.run.count(&format!("lookup file=isomorphism.{s}"));
        let want = map.keys().next().map(|k| k.0.street());
        if want != Some(s) {
            c.run.fail("lookup-file-street", &op[..op.len().min(300)], &format!("{:?}", want.map(|s| s.to_string())), &s.to_string());
        }
    }
    if !orig.is_empty() {
        c.run.distinct(&("lookup", &orig));
    }
    match &file {
        None => {
            if map.is_empty() {
                // Lookup::save derives the file name from the first key: an empty lookup cannot be
                // written at all (it panics before touching the disk); nothing is lost or misread.
                c.run.count("lookup empty: save panics (no file written)");
                if !c.run.notes.iter().any(|n| n.starts_with("Lookup::save on an EMPTY")) {
                c.run.notes.push("Lookup::save on an EMPTY lookup panics (`street()` = first key `.expect(\"non empty\")`) before any file is created: an empty isomorphism table cannot be written; the model does the same (saveLookup? = none)".into());
                }
                if files != before {
                    c.run.fail("save-fails-but-writes", &op, "directory unchanged", &format!("{:?}", files.iter().map(|f| &f.0).collect::<Vec<_>>()));
                }
            } else {
                c.run.fail(if saved.is_some() { "saved-file-not-under-current-directory" } else { "save-fails" }, &op[..op.len().min(300)], "one file pgcopy/isomorphism.<street> under the current working directory", &format!("panic={} files={:?}", saved.is_none(), files.iter().map(|f| &f.0).collect::<Vec<_>>()));
            }
        }
        Some((_, bytes)) => {
            let nm = file.as_ref().map(|f| f.0.clone()).unwrap_or_default();
            c.remember(&nm, &orig);
            let teq = loaded.as_ref().map(|l| l == map);
            oracle(&mut c.run, "lookup", &op, decl, &ROLES, &orig, bytes, &reloaded, teq);
        }
    }
}

/// transitions: no read accessor, so only the file is checked (bytes vs model, exact encoding)
fn case_decomp_file(c: &mut Ctx, map: BTreeMap<Abstraction, Histogram>, decl: &(Vec<String>, Vec<String>, Vec<(String, String)>)) {
    const ROLES: [&str; 3] = ["prev", "next", "dx"];
    let orig = decomp_rows(&map);
    let expected = format!("transitions.{}", map.keys().next().map(|k| k.street()).unwrap_or(Street::Rive));
    let d = Decomp::from(map);
    let before = c.before_save();
    c.run.evaluations += 1;
    let saved = catch(std::panic::AssertUnwindSafe(|| d.save()));
    let files = c.scr.files();
    let op = format!("saveb transitions {} {}", orig.len(), flat(&orig));
    let file = if saved.is_some() { pick(&files, c.keep, Some(expected.clone())).filter(|f| f.0 == expected) } else { None };
    over_count(c, "transitions", &before, &file);
    c.emit(&op, &answer(true, &file, &None));
    c.run.count(&format!("transitions {}", size_class(orig.len())));
    if !orig.is_empty() {
        c.run.distinct(&("transitions", &orig));
    }
    match &file {
        None => c.run.fail(if saved.is_some() { "saved-file-not-under-current-directory" } else { "save-fails" }, &op[..op.len().min(300)], &format!("pgcopy/{expected} under the current working directory"), &format!("panic={} files={:?}", saved.is_none(), files.iter().map(|f| &f.0).collect::<Vec<_>>())),
        Some((name, bytes)) => {
            file_oracle(&mut c.run, &op, decl, &ROLES, &orig, bytes);
            // Decomp::load rescales the weights, so only the (prev, next) pairs can be compared: load,
            // save again, read the pairs back with the independent reader
            let street = name.strip_prefix("transitions.").and_then(street_of_suffix);
            if let (Some(street), true) = (street, c.big && street != Some(Street::Rive)) {
                c.run.spec_checked += 1;
                let path = c.scr.dir.join("pgcopy").join(name);
                let again = catch(move || {
                    decomp_load(street).save();
                });
                match again {
                    None => c.run.fail("load-of-saved-file-panics", &op[..op.len().min(300)], "the saved transitions", "panic"),
                    Some(()) => {
                        let pairs = |rows: Vec<Vec<u64>>| -> std::collections::BTreeSet<(u64, u64)> { rows.into_iter().map(|r| (r[0], r[1])).collect() };
                        let want = pairs(orig.clone());
                        let got = pg_read(&std::fs::read(&path).expect("resaved")).map(|rows| pairs(rows.into_iter().map(|r| r.iter().map(|f| f.bits()).collect()).collect())).unwrap_or_default();
                        if got != want {
                            c.run.fail("transitions-reload-loses-rows", &op[..op.len().min(300)], &format!("{} (prev, next) pairs", want.len()), &format!("{} pairs, {} of the saved ones missing", got.len(), want.difference(&got).count()));
                        }
                    }
                }
            }
        }
    }
}

/// entering a directory again: everything saved there earlier must still load to what was saved
fn revisit(c: &mut Ctx) {
    let here = c.here();
    let entries: Vec<(String, Vec<Vec<u64>>)> = c.memory.iter().filter(|(k, _)| k.0 == here).map(|(k, v)| (k.1.clone(), v.clone())).collect();
    for (name, want) in entries {
        c.run.spec_checked += 1;
        let got: Option<Vec<Vec<u64>>> = if name == "blueprint" {
            catch(|| profile_rows(&profile_load()))
        } else if let Some(s) = name.strip_prefix("metric.").and_then(street_of_suffix) {
            catch(move || metric_rows(&metric_load(s)))
        } else if let Some(s) = name.strip_prefix("isomorphism.").and_then(street_of_suffix) {
            catch(move || lookup_rows(&BTreeMap::from(lookup_load(s))))
        } else {
            continue;
        };
        c.run.count("sequence: reload after working in the other directory");
        match got {
            None => c.run.fail("load-after-directory-change-differs", &format!("{here}/pgcopy/{name}"), &format!("{} rows saved here earlier", want.len()), "panic"),
            Some(rows) => {
                let rows = sorted(rows);
                if rows != want {
                    c.run.fail("load-after-directory-change-differs", &format!("{here}/pgcopy/{name}"), &format!("{} rows saved here earlier", want.len()), &format!("{} rows, different content", rows.len()));
                }
            }
        }
    }
}

/// one step of a sequence: (switch directory,) run the case, the other directory must be untouched
fn step(c: &mut Ctx, f: impl FnOnce(&mut Ctx)) {
    if c.alternate {
        std::mem::swap(&mut c.scr, &mut c.other);
        c.scr.enter();
        revisit(c);
    }
    let before = c.other.files();
    f(c);
    c.run.spec_checked += 1;
    let after = c.other.files();
    if after != before {
        let names: Vec<String> = after.iter().filter(|f| !before.contains(f)).map(|f| f.0.clone()).collect();
        c.run.fail("save-touches-other-directory", &format!("cwd {} ; other {}", c.here(), c.other.dir.to_string_lossy()), "files of the other directory unchanged", &format!("changed or new there: {:?}", names));
    }
}

fn main() {
    let a = args();
    let out = std::fs::canonicalize(&a.out).unwrap_or_else(|_| {
        std::fs::create_dir_all(&a.out).expect("out dir");
        std::fs::canonicalize(&a.out).expect("out dir")
    });
    let out = out.to_string_lossy().into_owned();
    let mut rng = Rng::new(a.seed);
    let run = Run::new(&out);
    quiet_panics();
    let scr = Scratch::new(&out);
    let other = Scratch::open(&out, "scratch-b");
    let mut c = Ctx { run, scr, keep: false, other, alternate: false, memory: BTreeMap::new(), big: false, noline: false };
    let deep = a.thorough();
    let nrand = if deep { 20000 } else { 1500 };
    let big = if deep { 40000 } else { 4000 };
    let nseq = if deep { 60 } else { 8 };
    c.run.rule = format!(
        "real save()+load() in a scratch directory for blueprint/metric/isomorphism tables: empty, one row, every edge kind x every street x every special float pattern (±0, ±inf, quiet/signalling NaN payloads, MAX, MIN_POSITIVE, subnormals, REGRET_MIN), {nrand} random tables of 0..60 rows per kind, 400+ blueprints whose values are reached by add_regret/add_policy from zero (not through the setters that load() uses), with cumulative regrets far beyond ±3e5; the EXPECTED table is always the harness's own record of the values given / tracked in f32 arithmetic, never read back from the object under test; tables of thousands of rows (blueprint {big} rows; metric 8128/10296/14196 rows = the flop/turn/preflop file names; lookup per street), keys with the sign bit set; the file bytes (hex up to {HEX_LIMIT} bytes, else length+FNV-1a) and the reloaded content are compared with the Lean model; plus {nseq} SEQUENCES of 12 saves per table kind (transitions too, file only) without clean-up, half of them into one directory and half alternating between TWO working directories inside the same process (the file must appear under the current directory, the other directory must stay untouched, and earlier saves must still load correctly on return) (large, small, large, same size, empty, one row, ... so that a save lands over a longer / shorter / equal-length / identical file); after EVERY save the complete file (length and all bytes) must equal an independently written encoding of the table just saved and pass a strict COPY reader that requires end-of-file right after the trailer; plus large tables (lookup to 322,638 rows = 8 MiB; metric, blueprint, transitions) sized so that a row's field count or the trailer straddles / follows a multiple of 8 KiB and (lookup; all kinds in the thorough tier) 1 MiB, compared by length + checksum; plus MANY-ROW round trips judged by the oracle through the harness's own record (rows lost / edges lost / values changed): blueprints of 65535, 65536, 65537, 70,001, 131,071, 131,073 and 140,000 rows with bucket sizes 3, 5, 7, 13 and mixed (not divisors of 65536), a 70,003-entry metric, a 65,539- and a 322,639-row lookup, a 70k-row transitions table (its (prev,next) pairs after load+save); non-trivial = at least one row; distinct by table content");

    let dp = declared::<Profile>();
    let dm = declared::<Metric>();
    let dl = declared::<Lookup>();
    declared_consistent(&mut c.run, "blueprint", &dp, &["past", "present", "future", "edge", "regret", "policy"]);
    declared_consistent(&mut c.run, "metric", &dm, &["xor", "dx"]);
    declared_consistent(&mut c.run, "isomorphism", &dl, &["obs", "abs"]);
    c.run.notes.push(format!("declared blueprint: COPY {:?} columns() {:?}", dp.0, dp.1));
    c.run.notes.push(format!("declared metric: COPY {:?} columns() {:?}", dm.0, dm.1));
    c.run.notes.push(format!("declared isomorphism: COPY {:?} columns() {:?}", dl.0, dl.1));

    // ---------------- blueprint
    case_profile(&mut c, &[], &dp);
    // one row per edge kind, per street, and one per special float (regret and policy swapped roles too)
    for e in all_edges() {
        for s in STREETS {
            let b = Bucket::from((any_path(&mut rng), Abstraction::from((s, rng.below(100) as usize)), any_path(&mut rng)));
            case_profile(&mut c, &[(b, e, any_f32(&mut rng), any_f32(&mut rng))], &dp);
        }
    }
    for (i, f) in SPECIAL_F32.iter().enumerate() {
        let b = any_bucket(&mut rng);
        let g = SPECIAL_F32[(i + 7) % SPECIAL_F32.len()];
        case_profile(&mut c, &[(b, any_edge(&mut rng), *f, g)], &dp);
    }
    // all edge kinds in one bucket, all special floats
    {
        let b = any_bucket(&mut rng);
        let rows: Vec<_> = all_edges().into_iter().enumerate().map(|(i, e)| (b, e, SPECIAL_F32[i % 22], SPECIAL_F32[(i * 5 + 3) % 22])).collect();
        case_profile(&mut c, &rows, &dp);
    }
    // same bucket/edge set twice: the later value wins in memory; the file has it once
    {
        let b = any_bucket(&mut rng);
        case_profile(&mut c, &[(b, Edge::Call, 1, 2), (b, Edge::Call, 3, 4), (b, Edge::Fold, 5, 6)], &dp);
    }
    for _ in 0..nrand {
        let top = if rng.chance(1, 10) { 60 } else { 12 };
        let n = rng.below(top);
        let nb = 1 + rng.below(n.max(1));
        let buckets: Vec<Bucket> = (0..nb).map(|_| any_bucket(&mut rng)).collect();
        let rows: Vec<_> = (0..n).map(|_| (buckets[rng.below(nb) as usize], any_edge(&mut rng), any_f32(&mut rng), any_f32(&mut rng))).collect();
        case_profile(&mut c, &rows, &dp);
    }
    // values reached by training-style updates, incl. regrets far below REGRET_MIN = -3e5 and beyond
    // +3e5, infinities and NaNs: the file must hold them and load() must return them unchanged
    for i in 0..(if deep { 4000 } else { 400 }) {
        let n = 1 + rng.below(8);
        let rows: Vec<_> = (0..n)
            .map(|j| {
                let r = match (i + j as usize) % 4 {
                    0 => (-(3e5 + rng.unit() * 1e7) as f32).to_bits(),
                    1 => ((3e5 + rng.unit() * 1e9) as f32).to_bits(),
                    _ => any_f32(&mut rng),
                };
                (any_bucket(&mut rng), any_edge(&mut rng), r, any_f32(&mut rng))
            })
            .collect();
        let mut fork = rng.fork();
        case_profile_updates(&mut c, &mut fork, &rows, &dp);
    }
    {
        let mut rows = vec![];
        while rows.len() < big {
            let b = any_bucket(&mut rng);
            for _ in 0..1 + rng.below(5) {
                rows.push((b, any_edge(&mut rng), any_f32(&mut rng), any_f32(&mut rng)));
            }
        }
        case_profile(&mut c, &rows, &dp);
    }

    // ---------------- metric
    case_metric(&mut c, &[], &dm);
    for f in SPECIAL_F32.iter() {
        case_metric(&mut c, &[(rng.next(), *f)], &dm);
    }
    case_metric(&mut c, &[(0, 0), (u64::MAX, 0xffff_ffff), (1 << 63, 0x8000_0000), ((1 << 63) - 1, 0x7f80_0000)], &dm);
    for _ in 0..nrand {
        let top = if rng.chance(1, 10) { 60 } else { 12 };
        let n = rng.below(top);
        let rows: Vec<_> = (0..n).map(|_| (if rng.chance(1, 5) { rng.below(8) } else { rng.next() }, any_f32(&mut rng))).collect();
        case_metric(&mut c, &rows, &dm);
    }
    // the entry counts that select the flop / turn / preflop file names, and one that does not
    for n in [8128usize, 10296, 14196, 3000] {
        let mut m = BTreeMap::new();
        while m.len() < n {
            m.insert(rng.next(), any_f32(&mut rng));
        }
        let rows: Vec<_> = m.into_iter().collect();
        case_metric(&mut c, &rows, &dm);
    }

    // ---------------- lookup
    case_lookup(&mut c, &BTreeMap::new(), &dl);
    for s in STREETS {
        for t in STREETS {
            let mut m = BTreeMap::new();
            m.insert(any_isomorphism(&mut rng, s), any_abstraction(&mut rng, Some(t)));
            case_lookup(&mut c, &m, &dl);
        }
    }
    for _ in 0..nrand {
        let s = STREETS[rng.below(4) as usize];
        let top = if rng.chance(1, 10) { 60 } else { 12 };
        let n = 1 + rng.below(top);
        let mut m = BTreeMap::new();
        for _ in 0..n {
            let t = if rng.chance(1, 2) { Some(s) } else { None };
            m.insert(any_isomorphism(&mut rng, s), any_abstraction(&mut rng, t));
        }
        case_lookup(&mut c, &m, &dl);
    }
    for s in STREETS {
        let n = if s == Street::Pref { 169 } else if deep { 30000 } else { 3000 };
        let mut m = BTreeMap::new();
        let mut tries = 0;
        while m.len() < n && tries < 50 * n {
            m.insert(any_isomorphism(&mut rng, s), any_abstraction(&mut rng, Some(s)));
            tries += 1;
        }
        case_lookup(&mut c, &m, &dl);
    }
    // ---------------- sequences of saves (no clean-up in between), alternating between TWO working
    // directories inside this one process: every save must leave, under the CURRENT directory,
    // exactly the encoding of the table just saved, whatever was there before; the other directory
    // is not touched; and on coming back everything saved earlier still loads to what was saved
    let dt = declared::<Decomp>();
    declared_consistent(&mut c.run, "transitions", &dt, &["prev", "next", "dx"]);
    c.scr.clean();
    c.keep = true;
    // sizes: large, small, large again, same size/different content, empty, one row, ...
    let sizes = |rng: &mut Rng| -> Vec<usize> {
        let l = 40 + rng.below(200) as usize;
        let s = 1 + rng.below(6) as usize;
        vec![l, s, l + 7, l + 7, 0, 1, s, s, l, 0, 0, 2]
    };
    for q in 0..nseq {
        c.scr.clean();
        c.other.clean();
        c.memory.clear();
        // even sequences: A,A,A,...; odd sequences: A,B,A,B,... (both directories see large->small etc.
        // because each size appears twice in a row when doubled)
        c.alternate = q % 2 == 1;
        let dbl = |v: Vec<usize>, alt: bool| -> Vec<usize> { if alt { v.into_iter().flat_map(|n| [n, n]).collect() } else { v } };
        for n in dbl(sizes(&mut rng), c.alternate) {
            let mut rows = vec![];
            while rows.len() < n {
                rows.push((any_bucket(&mut rng), any_edge(&mut rng), any_f32(&mut rng), any_f32(&mut rng)));
            }
            step(&mut c, |c| case_profile(c, &rows, &dp));
        }
        for n in dbl(sizes(&mut rng), c.alternate) {
            let mut m = BTreeMap::new();
            while m.len() < n {
                m.insert(rng.next(), any_f32(&mut rng));
            }
            let rows: Vec<_> = m.into_iter().collect();
            step(&mut c, |c| case_metric(c, &rows, &dm));
        }
        let s = STREETS[rng.below(4) as usize];
        for n in dbl(sizes(&mut rng), c.alternate) {
            let mut m = BTreeMap::new();
            let n = if s == Street::Pref { n.min(100) } else { n };
            let mut tries = 0;
            while m.len() < n && tries < 100 * (n + 1) {
                m.insert(any_isomorphism(&mut rng, s), any_abstraction(&mut rng, Some(s)));
                tries += 1;
            }
            step(&mut c, |c| case_lookup(c, &m, &dl)); // n = 0: save panics and must leave the directory alone
        }
        let s = [Street::Pref, Street::Flop, Street::Turn][rng.below(3) as usize];
        for n in dbl(sizes(&mut rng), c.alternate) {
            let m = if n == 0 { BTreeMap::new() } else { any_decomp(&mut rng, s, n, 64) };
            step(&mut c, |c| case_decomp_file(c, m, &dt));
        }
    }
    // the flop/turn/preflop metric names too: a small metric (-> metric.river) never touches them,
    // and re-saving a special count over its own file
    {
        c.alternate = false;
        c.scr.clean();
        c.other.clean();
        c.memory.clear();
        for n in [8128usize, 3, 8128, 0, 8128] {
            let mut m = BTreeMap::new();
            while m.len() < n {
                m.insert(rng.next(), any_f32(&mut rng));
            }
            let rows: Vec<_> = m.into_iter().collect();
            step(&mut c, |c| case_metric(c, &rows, &dm));
        }
    }
    c.keep = false;
    c.alternate = false;
    c.memory.clear();
    c.scr.clean();
    c.other.clean();

    // ---------------- large tables whose row starts / trailer fall on I/O buffer boundaries: a row's
    // 2-byte field count begins at byte 19 + rowsize*r; with r rows the count of row r' (or the
    // trailer) straddles (residue -1) or follows (residue +1) a multiple of 8 KiB (BufReader's
    // default) or 1 MiB for some r' <= r.  Files are compared by length + checksum (`saveb`), the
    // reload by the oracle.
    c.big = true;
    let mib = 1usize << 20;
    let first = |rowsize: usize, modulus: usize, res: i64| -> usize {
        (1..).find(|r| ((19 + rowsize * r) as i64 - res).rem_euclid(modulus as i64) == 0).unwrap()
    };
    let mut big_lookup = vec![first(26, 8192, -1) + 3, first(26, mib, -1) + 1];
    let mut big_metric = vec![first(22, 8192, -1) + 3];
    let mut big_profile = vec![first(66, 8192, 1) + 3];
    let mut big_decomp = vec![first(34, 8192, 1) + 3];
    if deep {
        big_lookup.extend([first(26, mib, 1) - 1, first(26, mib, 1), first(26, mib, 1) + 2, first(26, mib, -1), 2 * first(26, mib, -1) + 40000]);
        big_metric.extend([first(22, mib, 1), first(22, mib, -1), first(22, mib, -1) + 1]);
        big_profile.extend([first(66, mib, 1), first(66, mib, -1), first(66, mib, -1) + 1]);
        big_decomp.extend([first(34, mib, 1), first(34, mib, -1) + 5]);
    }
    for n in big_lookup {
        let s = if n > 1_000_000 { Street::Rive } else { STREETS[2 + rng.below(2) as usize] };
        let mut m = BTreeMap::new();
        while m.len() < n {
            m.insert(any_isomorphism(&mut rng, s), any_abstraction(&mut rng, Some(s)));
        }
        case_lookup(&mut c, &m, &dl);
    }
    for n in big_metric {
        let mut m = BTreeMap::new();
        while m.len() < n {
            m.insert(rng.next(), any_f32(&mut rng));
        }
        let rows: Vec<_> = m.into_iter().collect();
        case_metric(&mut c, &rows, &dm);
    }
    for n in big_profile {
        let mut rows = Vec::with_capacity(n + 8);
        while rows.len() < n {
            let b = any_bucket(&mut rng);
            for e in [Edge::Fold, Edge::Call, Edge::Shove] {
                rows.push((b, e, any_f32(&mut rng), any_f32(&mut rng)));
            }
        }
        case_profile(&mut c, &rows, &dp);
    }
    for n in big_decomp {
        let m = any_decomp(&mut rng, Street::Flop, n, 4096);
        case_decomp_file(&mut c, m, &dt);
    }

    // ---------------- many rows: row counts at and beyond 65536·k with bucket sizes that do not divide
    // 65536 (a loader that decodes fixed batches of rows must not lose the part of a bucket on the
    // other side of a batch boundary); >= 70k rows for the other tables too
    let edges = all_edges();
    let mut profile_of = |rng: &mut Rng, n: usize, sizes: &[usize]| -> Vec<(Bucket, Edge, u32, u32)> {
        let mut rows = Vec::with_capacity(n);
        let mut seen = std::collections::HashSet::new();
        let mut i = 0;
        while rows.len() < n {
            let b = any_bucket(rng);
            if !seen.insert((u64::from(b.0), u64::from(b.1), u64::from(b.2))) {
                continue; // distinct buckets, so that the row count is exact
            }
            let k = sizes[i % sizes.len()].min(edges.len());
            i += 1;
            let off = rng.below(edges.len() as u64) as usize;
            for j in 0..k {
                if rows.len() < n {
                    rows.push((b, edges[(off + j) % edges.len()], any_f32(rng), any_f32(rng)));
                }
            }
        }
        rows
    };
    // (rows, bucket sizes, send a line to the model?)
    let mut many: Vec<(usize, Vec<usize>, bool)> = vec![
        (65535, vec![3], false),
        (65536, vec![5], false),
        (65537, vec![7], true),
        (70_001, vec![13], false),
        (131_071, vec![2, 3, 5, 7, 11, 13, 1], false),
        (131_073, vec![3], false),
        (140_000, vec![7, 5], false),
    ];
    if deep {
        many.extend([(65536 * 3 + 1, vec![3, 13], false), (65536 * 4 - 1, vec![5], false), (300_000, vec![17, 4, 9], false), (65536, vec![4], false)]);
    }
    for (n, sizes, line) in many {
        let rows = profile_of(&mut rng, n, &sizes);
        c.noline = !line;
        c.run.count(&format!("blueprint many rows: {} rows, bucket sizes {:?}", n, sizes));
        case_profile(&mut c, &rows, &dp);
    }
    c.noline = true;
    {
        let n = 70_003;
        let mut m = BTreeMap::new();
        while m.len() < n {
            m.insert(rng.next(), any_f32(&mut rng));
        }
        let rows: Vec<_> = m.into_iter().collect();
        case_metric(&mut c, &rows, &dm);
        // lookup: 322,639 rows above; one more just beyond 65536
        let mut m = BTreeMap::new();
        while m.len() < 65_539 {
            m.insert(any_isomorphism(&mut rng, Street::Rive), any_abstraction(&mut rng, Some(Street::Rive)));
        }
        case_lookup(&mut c, &m, &dl);
        // transitions: >= 70k (prev, next) rows; prev codes are raw (the 12-bit index gives only 4096)
        let mut m: BTreeMap<Abstraction, Histogram> = BTreeMap::new();
        let mut total = 0;
        while total < 70_000 {
            let from = Abstraction::from((1u64 << 56) | (rng.next() >> 8));
            let k = 1 + rng.below(30) as usize;
            let support: Vec<Abstraction> = (0..k).map(|_| Abstraction::from((Street::Turn, rng.below(144) as usize))).collect();
            let v: Vec<Abstraction> = (0..2 * k).map(|_| support[rng.below(k as u64) as usize]).collect();
            let h = Histogram::from(v);
            if !m.contains_key(&from) {
                total += h.n();
                m.insert(from, h);
            }
        }
        case_decomp_file(&mut c, m, &dt);
    }
    c.noline = false;
    c.big = false;
    c.keep = false;
    c.run.exhaustive = false;
    c.scr.clean();
    c.run.finish();
}
