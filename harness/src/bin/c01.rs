// C01 — hand strength ordering is exactly the poker hand ranking (standard and short-deck builds).
//
// correspondence:  `eval <cfg> <bits>` -> `<variant index> <r1> <r2> <kicker mask>` of the real
//                  `Strength::from(Hand::from(bits))`, and `cmp <cfg> <a> <b>` -> `Strength::cmp`.
//                  The variant index is measured with the real derived `Ord` of `Ranking`.
// search oracle:   a brute-force best-five evaluator written from the rules of poker (category by
//                  multiplicity pattern / flush / straight, tie-break = ranks ordered by
//                  (multiplicity, rank); short deck: flush > full house, A-6-7-8-9 lowest straight).
//                  It never looks at the Lean model or at the engine's data structures.
//                  (1) all five-card hands are sorted by the oracle value and every adjacent pair is
//                      compared with `Strength::cmp` (Less/Equal expected) — the engine order being a
//                      total preorder, this decides the whole order on five-card hands;
//                  (2) every 6/7-card hand must compare Equal to its own best five cards;
//                  (3) random pairs of 5/6/7-card hands, pairs across adjacent categories, flush vs full
//                      house pairs and flushes with the same top card;
//                  every pair goes through ALL comparison APIs of Strength and Ranking (cmp, partial_cmp,
//                  <, <=, >, >=, ==, max, min, sort, sort_unstable, Iterator::max/min).
// failure classes:  `flush-lower-cards-ignored` (two non-straight flushes with the same top card and
//                  different lower cards compare Equal — repaired in /repo 2bb9547), `flush-fullhouse-order-swapped`
//                  (repaired in 8321a88), `category-order-differs-from-rules`, `tie-break-differs-from-rules`,
//                  `best-five-not-found`, `evaluator-panics`, and for the other comparison APIs
//                  `strength-partial-cmp-differs-from-cmp|-rules`, `strength-operator-differs-from-rules`,
//                  `strength-eq-inconsistent-with-cmp`, `strength-max-min-differs-from-rules`,
//                  `strength-sort-differs-from-rules`, `strength-iter-max-min-differs-from-rules`,
//                  `ranking-comparison-apis-disagree`, `ranking-category-order-differs-from-rules`.  All are violations.
use robopoker::cards::card::Card;
use robopoker::cards::evaluator::Evaluator;
use robopoker::cards::hand::Hand;
use robopoker::cards::rank::Rank;
use robopoker::cards::ranking::Ranking;
use robopoker::cards::strength::Strength;
use rpharness::*;
use std::cmp::Ordering;
use std::sync::atomic::{AtomicUsize, Ordering as AO};
use std::sync::Mutex;

// ------------------------------------------------------------------ oracle (rules of poker)
const NAMES: [&str; 9] = ["high-card", "pair", "two-pair", "trips", "straight", "flush", "full-house", "quads", "straight-flush"];
#[derive(Clone, Copy, PartialEq, Eq, Debug)]
enum Cat { High = 0, Pair = 1, TwoPair = 2, Trips = 3, Straight = 4, Flush = 5, Full = 6, Quads = 7, StrFlush = 8 }

/// position of a category in the ranking of the configured deck
fn position(c: Cat, short: bool) -> u32 {
    match (c, short) {
        (Cat::Flush, true) => 6,  // short deck: a flush beats a full house
        (Cat::Full, true) => 5,
        (c, _) => c as u32,
    }
}
fn cat_of_value(v: u32, short: bool) -> Cat {
    let p = v >> 20;
    for c in [Cat::High, Cat::Pair, Cat::TwoPair, Cat::Trips, Cat::Straight, Cat::Flush, Cat::Full, Cat::Quads, Cat::StrFlush] {
        if position(c, short) == p { return c; }
    }
    unreachable!()
}

/// value of exactly five cards (card = 4*rank + suit, rank 0 = deuce … 12 = ace)
fn value5(cards: &[u8; 5], short: bool) -> u32 {
    let mut cnt = [0u8; 13];
    for &c in cards { cnt[(c / 4) as usize] += 1; }
    let flush = cards.iter().all(|&c| c % 4 == cards[0] % 4);
    // distinct ranks ordered by (multiplicity, rank), highest first
    let mut groups: Vec<(u8, u8)> = (0..13u8).filter(|&r| cnt[r as usize] > 0).map(|r| (cnt[r as usize], r)).collect();
    groups.sort_by(|a, b| b.cmp(a));
    let straight_top: Option<u8> = if groups.len() == 5 {
        let hi = groups[0].1; let lo = groups[4].1;
        let ranks: Vec<u8> = groups.iter().map(|g| g.1).collect();
        if hi - lo == 4 { Some(hi) }
        else if !short && ranks == [12, 3, 2, 1, 0] { Some(3) }       // A-2-3-4-5, five high
        else if short && ranks == [12, 7, 6, 5, 4] { Some(7) }        // A-6-7-8-9, nine high
        else { None }
    } else { None };
    let pattern: Vec<u8> = groups.iter().map(|g| g.0).collect();
    let (cat, tb): (Cat, Vec<u8>) = if let (Some(t), true) = (straight_top, flush) { (Cat::StrFlush, vec![t]) }
        else if pattern == [4, 1] { (Cat::Quads, groups.iter().map(|g| g.1).collect()) }
        else if pattern == [3, 2] { (Cat::Full, groups.iter().map(|g| g.1).collect()) }
        else if flush { (Cat::Flush, groups.iter().map(|g| g.1).collect()) }
        else if let Some(t) = straight_top { (Cat::Straight, vec![t]) }
        else if pattern == [3, 1, 1] { (Cat::Trips, groups.iter().map(|g| g.1).collect()) }
        else if pattern == [2, 2, 1] { (Cat::TwoPair, groups.iter().map(|g| g.1).collect()) }
        else if pattern == [2, 1, 1, 1] { (Cat::Pair, groups.iter().map(|g| g.1).collect()) }
        else { (Cat::High, groups.iter().map(|g| g.1).collect()) };
    let mut v = position(cat, short);
    for i in 0..5 { v = v << 4 | tb.get(i).map(|&r| r as u32 + 2).unwrap_or(0); }
    v
}

/// best five-card value of a 5..7-card set, with the five cards that achieve it
fn best5(bits: u64, short: bool) -> (u32, u64) {
    let cards: Vec<u8> = (0..64u8).filter(|i| bits >> i & 1 == 1).collect();
    let n = cards.len();
    let mut best = (0u32, 0u64);
    let mut first = true;
    for a in 0..n { for b in a + 1..n { for c in b + 1..n { for d in c + 1..n { for e in d + 1..n {
        let five = [cards[a], cards[b], cards[c], cards[d], cards[e]];
        let v = value5(&five, short);
        if first || v > best.0 {
            best = (v, five.iter().fold(0u64, |m, &x| m | 1u64 << x));
            first = false;
        }
    }}}}}
    best
}

// ------------------------------------------------------------------ engine side
fn rank_u8(r: Rank) -> u8 { u8::from(r) }
fn fields(r: Ranking) -> (u8, u8) {
    match r {
        Ranking::HighCard(a) | Ranking::OnePair(a) | Ranking::ThreeOAK(a) | Ranking::Straight(a)
        | Ranking::Flush(a) | Ranking::FourOAK(a) | Ranking::StraightFlush(a) => (rank_u8(a), 0),
        Ranking::TwoPair(a, b) | Ranking::FullHouse(a, b) => (rank_u8(a), rank_u8(b)),
        _ => (0, 0), // the showdown's sentinel variant, if the enum has one
    }
}
/// position of the variant in the derived order, measured with the real `Ord`
fn variant_index(r: Ranking) -> usize {
    let two = Rank::Two;
    let mins = [Ranking::HighCard(two), Ranking::OnePair(two), Ranking::TwoPair(two, two), Ranking::ThreeOAK(two),
        Ranking::Straight(two), Ranking::FullHouse(two, two), Ranking::Flush(two), Ranking::FourOAK(two),
        Ranking::StraightFlush(two)];
    mins.iter().filter(|m| **m <= r).count() - 1
}
// the ranking (private field of Strength) is read through the public Evaluator::find_ranking, the
// kickers through the public field; nothing else of the evaluator's API is used, so the harness
// builds against any variant of the kicker code
struct Eng { s: Strength, idx: usize, r1: u8, r2: u8, kicks: u16 }
fn engine(bits: u64) -> Option<Eng> {
    catch(move || {
        let hand = Hand::from(bits);
        let s = Strength::from(hand);
        let e = Evaluator::from(hand);
        let ranking = e.find_ranking();
        let (r1, r2) = fields(ranking);
        Eng { s, idx: variant_index(ranking), r1, r2, kicks: u16::from(s.kicks) }
    })
}
fn ord_str(o: Ordering) -> &'static str { match o { Ordering::Less => "Less", Ordering::Equal => "Equal", Ordering::Greater => "Greater" } }
fn show(bits: u64) -> String { format!("{}", Hand::from(bits)) }

/// class of a disagreement between the engine's and the rules' comparison of two hands
fn classify(va: u32, vb: u32, eng: Ordering, short: bool) -> &'static str {
    let (ca, cb) = (cat_of_value(va, short), cat_of_value(vb, short));
    let top = |v: u32| v >> 16 & 15;
    if ca == Cat::Flush && cb == Cat::Flush && top(va) == top(vb) && va != vb && eng == Ordering::Equal {
        "flush-lower-cards-ignored"
    } else if (ca == Cat::Flush && cb == Cat::Full) || (ca == Cat::Full && cb == Cat::Flush) {
        "flush-fullhouse-order-swapped"
    } else if ca != cb {
        "category-order-differs-from-rules"
    } else {
        "tie-break-differs-from-rules"
    }
}

#[derive(Default)]
struct Local { fails: Vec<(String, String, String, String)>, fail_count: std::collections::BTreeMap<String, u64>, checked: u64, evals: u64, dist: std::collections::BTreeMap<String, u64> }
impl Local {
    fn fail(&mut self, class: &str, input: String, exp: String, got: String) {
        let n = self.fail_count.entry(class.to_string()).or_insert(0);
        *n += 1;
        if *n <= 5 { self.fails.push((class.to_string(), input, exp, got)); }
    }
    fn merge_into(self, run: &mut Run) {
        run.spec_checked += self.checked;
        run.evaluations += self.evals;
        for (k, v) in self.dist { run.count_n(&k, v); }
        for (c, i, e, g) in self.fails { run.fail(&c, &i, &e, &g); }
        for (c, n) in self.fail_count { let extra = n.saturating_sub(5.min(n)); run.failure_count += extra; run.count_n(&format!("spec-failures:{c}"), n); }
    }
}

/// compare one pair with the engine and the rules — through EVERY comparison API of `Strength`
/// (`cmp`, `partial_cmp`, `<`, `<=`, `>`, `>=`, `==`, `Ord::max/min`, `sort`, `Iterator::max/min`)
/// and of `Ranking` (via the public `Evaluator::find_ranking`); they must agree with each other and
/// with the rules.  `cmp`/`partial_cmp`/operators can come from different impls (derived vs hand-written).
fn check_pair(l: &mut Local, a: u64, b: u64, sa: &Strength, sb: &Strength, va: u32, vb: u32, short: bool) -> Ordering {
    let eng = sa.cmp(sb);
    let want = va.cmp(&vb);
    l.checked += 1;
    let input = || format!("{} vs {} (bits {a} {b})", show(a), show(b));
    let cats = || format!("({} vs {})", NAMES[cat_of_value(va, short) as usize], NAMES[cat_of_value(vb, short) as usize]);
    if eng != want {
        l.fail(classify(va, vb, eng, short), input(),
            format!("{} {}", ord_str(want), cats()),
            format!("{} ({:?} vs {:?})", ord_str(eng), sa, sb));
    }
    // ---- Strength: every API against the rules
    let pc = sa.partial_cmp(sb);
    if pc != Some(want) {
        l.fail(if pc != Some(eng) { "strength-partial-cmp-differs-from-cmp" } else { "strength-partial-cmp-differs-from-rules" }, input(),
            format!("partial_cmp = Some({}) {}", ord_str(want), cats()), format!("partial_cmp = {:?}, cmp = {}", pc, ord_str(eng)));
    }
    let ops = [("<", sa < sb, want == Ordering::Less), ("<=", sa <= sb, want != Ordering::Greater),
               (">", sa > sb, want == Ordering::Greater), (">=", sa >= sb, want != Ordering::Less)];
    for (name, got, exp) in ops {
        if got != exp {
            l.fail("strength-operator-differs-from-rules", input(), format!("a {name} b = {exp} {}", cats()),
                format!("a {name} b = {got}, cmp = {}", ord_str(eng)));
        }
    }
    let eq = sa == sb;
    if eq != (want == Ordering::Equal) || (sa != sb) == eq {
        l.fail(if eq != (eng == Ordering::Equal) { "strength-eq-inconsistent-with-cmp" } else { "strength-eq-differs-from-rules" }, input(),
            format!("a == b is {} {}", want == Ordering::Equal, cats()), format!("a == b is {eq}, a != b is {}, cmp = {}", sa != sb, ord_str(eng)));
    }
    if want != Ordering::Equal && eng == want {
        // with different rule values the bigger strength is known; identity of a returned copy is
        // tested with `cmp`, which was just seen to be right on this pair
        let (lo, hi) = if want == Ordering::Less { (*sa, *sb) } else { (*sb, *sa) };
        let same = |x: &Strength, y: &Strength| x.cmp(y) == Ordering::Equal;
        let mx = std::cmp::max(*sa, *sb); let mn = std::cmp::min(*sa, *sb);
        let mx2 = std::cmp::max(*sb, *sa); let mn2 = std::cmp::min(*sb, *sa);
        if !(same(&mx, &hi) && same(&mx2, &hi) && same(&mn, &lo) && same(&mn2, &lo)) {
            l.fail("strength-max-min-differs-from-rules", input(), format!("max = {:?}, min = {:?} {}", hi, lo, cats()),
                format!("max(a,b) = {:?}, max(b,a) = {:?}, min(a,b) = {:?}, min(b,a) = {:?}", mx, mx2, mn, mn2));
        }
        for v0 in [[*sa, *sb, *sa], [*sb, *sa, *sb]] {
            let mut v = v0.to_vec();
            v.sort();
            let mut u = v0.to_vec();
            u.sort_unstable();
            let okv = |w: &Vec<Strength>| same(&w[0], &lo) && same(&w[2], &hi);
            if !okv(&v) || !okv(&u) {
                l.fail("strength-sort-differs-from-rules", input(), format!("sorted: first {:?}, last {:?} {}", lo, hi, cats()),
                    format!("sort: {:?}; sort_unstable: {:?}", v, u));
            }
            let im = v0.iter().max().unwrap(); let imn = v0.iter().min().unwrap();
            if !same(im, &hi) || !same(imn, &lo) {
                l.fail("strength-iter-max-min-differs-from-rules", input(), format!("iter().max() = {:?}, iter().min() = {:?} {}", hi, lo, cats()),
                    format!("iter().max() = {:?}, iter().min() = {:?}", im, imn));
            }
        }
    }
    // ---- Ranking (category + its rank fields): internal consistency of its comparison APIs, and the
    //      category order against the rules when the categories differ
    let (ra, rb) = (Evaluator::from(Hand::from(a)).find_ranking(), Evaluator::from(Hand::from(b)).find_ranking());
    let rc = ra.cmp(&rb);
    let rpc = ra.partial_cmp(&rb);
    let rops = (ra < rb) == (rc == Ordering::Less) && (ra <= rb) == (rc != Ordering::Greater)
        && (ra > rb) == (rc == Ordering::Greater) && (ra >= rb) == (rc != Ordering::Less) && (ra == rb) == (rc == Ordering::Equal);
    let rmax_ok = rc == Ordering::Equal || {
        let (lo, hi) = if rc == Ordering::Less { (ra, rb) } else { (rb, ra) };
        std::cmp::max(ra, rb) == hi && std::cmp::max(rb, ra) == hi && std::cmp::min(ra, rb) == lo && [ra, rb].iter().max() == Some(&hi) && {
            let mut v = vec![rb, ra, rb]; v.sort(); v[0] == lo && v[2] == hi }
    };
    if rpc != Some(rc) || !rops || !rmax_ok {
        l.fail("ranking-comparison-apis-disagree", input(), format!("partial_cmp/operators/max/min/sort of Ranking agree with Ranking::cmp = {}", ord_str(rc)),
            format!("{:?} vs {:?}: partial_cmp = {:?}, <: {}, >: {}, ==: {}, max = {:?}", ra, rb, rpc, ra < rb, ra > rb, ra == rb, std::cmp::max(ra, rb)));
    }
    let (ca, cb) = (position(cat_of_value(va, short), short), position(cat_of_value(vb, short), short));
    if ca != cb && (rc != ca.cmp(&cb) || rpc != Some(ca.cmp(&cb))) {
        l.fail("ranking-category-order-differs-from-rules", input(), format!("{} {}", ord_str(ca.cmp(&cb)), cats()),
            format!("Ranking::cmp = {}, partial_cmp = {:?} ({:?} vs {:?})", ord_str(rc), rpc, ra, rb));
    }
    eng
}

/// next integer with the same number of set bits
fn gosper(x: u64) -> u64 {
    let c = x & x.wrapping_neg();
    let r = x + c;
    (((r ^ x) >> 2) / c) | r
}

fn main() {
    let a = args();
    let mut rng = Rng::new(a.seed);
    let mut run = Run::new(&a.out);
    quiet_panics();
    let short = is_shortdeck();
    let cfg = if short { "short" } else { "std" };
    let mask = Hand::mask();
    let lo = mask.trailing_zeros();
    let ncards = mask.count_ones();
    assert!(mask >> lo == (1u64 << ncards) - 1, "deck mask is not contiguous");
    // the oracle's card decoding agrees with the engine's
    for i in 0..52u8 {
        let c = Card::from(i);
        if u8::from(c.rank()) != i / 4 || u8::from(c.suit()) != i % 4 {
            run.fail("card-encoding", &format!("card {i}"), &format!("rank {} suit {}", i / 4, i % 4), &format!("{:?}", c));
        }
    }
    let thorough = a.thorough();
    let n_sample: u64 = if thorough { 3_000_000 } else { 700_000 }; // per size 6, 7
    run.rule = format!("every {ncards}-choose-5 five-card hand of the configured deck through the real Strength::from(Hand::from(bits)) (exhaustive), plus {n_sample} random 6-card and {n_sample} random 7-card hands{}; oracle: all five-card hands sorted by the rules value and every adjacent pair compared with Strength::cmp, every 6/7-card hand compared with its own best five cards, random and category-boundary pairs; every hand is a non-trivial case; distinct by card set",
        if thorough { ", and every 6- and 7-card hand against the oracle" } else { "" });

    // ---------------- all five-card hands
    let mut five: Vec<(u32, u64)> = Vec::with_capacity(2_600_000);
    let mut dist = [[0u64; 9]; 8];
    let mut x: u64 = 0b11111;
    let limit = 1u64 << ncards;
    let mut main_local = Local::default();
    while x < limit {
        let bits = x << lo;
        run.evaluations += 1;
        let op = format!("eval {cfg} {bits}");
        match engine(bits) {
            None => { run.line(&op, "panic"); run.fail("evaluator-panics", &show(bits), "a strength", "panic"); }
            Some(e) => {
                run.line(&op, &format!("{} {} {} {}", e.idx, e.r1, e.r2, e.kicks));
                let v = value5(&{ let mut c = [0u8; 5]; let mut k = 0; for i in 0..64u8 { if bits >> i & 1 == 1 { c[k] = i; k += 1; } } c }, short);
                five.push((v, bits));
                dist[5][cat_of_value(v, short) as usize] += 1;
                run.distinct(&bits);
            }
        }
        x = gosper(x);
    }
    run.exhaustive = true;
    five.sort();
    // adjacent pairs in the rules order
    let strengths: Vec<Strength> = five.iter().map(|&(_, b)| Strength::from(Hand::from(b))).collect();
    let mut cmp_lines = 0u64;
    for i in 0..five.len().saturating_sub(1) {
        let (va, ba) = five[i]; let (vb, bb) = five[i + 1];
        let eng = check_pair(&mut main_local, ba, bb, &strengths[i], &strengths[i + 1], va, vb, short);
        // correspondence: every boundary between two distinct values, and every 16th tie
        if va != vb || i % 16 == 0 {
            run.line(&format!("cmp {cfg} {ba} {bb}"), ord_str(eng));
            cmp_lines += 1;
        }
    }
    run.count_n("pairs:adjacent-in-rules-order(all five-card hands)", five.len() as u64 - 1);
    // value -> first index, for category-boundary and near-value pairs
    let pick = |rng: &mut Rng, five: &Vec<(u32, u64)>| -> usize { rng.below(five.len() as u64) as usize };

    // ---------------- sampled 6/7-card hands: per-hand check against own best five, correspondence lines
    let mut sampled: Vec<(u32, u64)> = Vec::new();
    for k in [6usize, 7] {
        for _ in 0..n_sample {
            let bits = rng.cards(k, mask);
            run.evaluations += 1;
            let op = format!("eval {cfg} {bits}");
            match engine(bits) {
                None => { run.line(&op, "panic"); run.fail("evaluator-panics", &show(bits), "a strength", "panic"); }
                Some(e) => {
                    run.line(&op, &format!("{} {} {} {}", e.idx, e.r1, e.r2, e.kicks));
                        let (v, sub) = best5(bits, short);
                    let s5 = Strength::from(Hand::from(sub));
                    main_local.checked += 1;
                    if e.s.cmp(&s5) != Ordering::Equal {
                        main_local.fail("best-five-not-found", format!("{} (bits {bits}), best five {}", show(bits), show(sub)),
                            format!("Equal to its best five cards ({})", NAMES[cat_of_value(v, short) as usize]), format!("{} ({:?} vs {:?})", ord_str(e.s.cmp(&s5)), e.s, s5));
                    }
                    dist[k][cat_of_value(v, short) as usize] += 1;
                    run.distinct(&bits);
                    if sampled.len() < 400_000 { sampled.push((v, bits)); }
                }
            }
        }
    }
    // ---------------- random pairs (mixed sizes), near-value pairs
    let n_pairs = if thorough { 2_000_000 } else { 300_000 };
    for i in 0..n_pairs {
        let (va, ba) = if i % 2 == 0 { sampled[rng.below(sampled.len() as u64) as usize] } else { five[pick(&mut rng, &five)] };
        let (vb, bb) = match i % 3 {
            0 => sampled[rng.below(sampled.len() as u64) as usize],
            1 => five[pick(&mut rng, &five)],
            _ => {
                // a five-card hand whose value is next to va in the rules order
                let j = five.partition_point(|p| p.0 < va);
                let j = (j as i64 + rng.range(-3, 3)).clamp(0, five.len() as i64 - 1) as usize;
                five[j]
            }
        };
        let (sa, sb) = (Strength::from(Hand::from(ba)), Strength::from(Hand::from(bb)));
        let eng = check_pair(&mut main_local, ba, bb, &sa, &sb, va, vb, short);
        if i % 3 != 1 || i % 4 == 0 {
            run.line(&format!("cmp {cfg} {ba} {bb}"), ord_str(eng));
            cmp_lines += 1;
        }
        run.evaluations += 2;
    }
    run.count_n("pairs:random-and-near-value", n_pairs as u64);
    // ---------------- flush vs full house, and flushes with the same top card (five-card hands and sampled 6/7-card hands)
    {
        let range_of = |c: Cat, list: &Vec<(u32, u64)>| -> (usize, usize) {
            let p = position(c, short);
            (list.partition_point(|x| (x.0 >> 20) < p), list.partition_point(|x| (x.0 >> 20) <= p))
        };
        let mut big: Vec<(u32, u64)> = sampled.clone();
        big.sort();
        let n_special = if thorough { 400_000 } else { 120_000 };
        let mut n_ff = 0u64; let mut n_same = 0u64;
        for i in 0..n_special {
            let list = if i % 3 == 2 { &big } else { &five };
            let (f0, f1) = range_of(Cat::Flush, list);
            let (h0, h1) = range_of(Cat::Full, list);
            if f1 <= f0 || h1 <= h0 { continue; }
            let (va, ba) = list[f0 + rng.below((f1 - f0) as u64) as usize];
            let (vb, bb) = if i % 2 == 0 {
                n_ff += 1;
                list[h0 + rng.below((h1 - h0) as u64) as usize]
            } else {
                // another flush with the same top card (values are sorted by top card first)
                let top = va >> 16;
                let (t0, t1) = (list.partition_point(|x| (x.0 >> 16) < top), list.partition_point(|x| (x.0 >> 16) <= top));
                n_same += 1;
                list[t0 + rng.below((t1 - t0) as u64) as usize]
            };
            let (ba, bb, va, vb) = if i % 4 < 2 { (ba, bb, va, vb) } else { (bb, ba, vb, va) };
            let (sa, sb) = (Strength::from(Hand::from(ba)), Strength::from(Hand::from(bb)));
            let eng = check_pair(&mut main_local, ba, bb, &sa, &sb, va, vb, short);
            if i % 8 == 0 { run.line(&format!("cmp {cfg} {ba} {bb}"), ord_str(eng)); cmp_lines += 1; }
            run.evaluations += 2;
        }
        run.count_n("pairs:flush-vs-full-house", n_ff);
        run.count_n("pairs:flushes-with-same-top-card", n_same);
    }
    run.count_n("lines:cmp", cmp_lines);
    // the witness of the repaired flush tie, always replayed (these ranks exist in both decks)
    {
        let h = |t: &str| u64::from(Hand::try_from(t).unwrap());
        let (wa, wb) = (h("As Ks Qs Js 9s"), h("Ah Kh Qh Jh 8h"));
        let (va, vb) = (best5(wa, short).0, best5(wb, short).0);
        let (sa, sb) = (Strength::from(Hand::from(wa)), Strength::from(Hand::from(wb)));
        let eng = check_pair(&mut main_local, wa, wb, &sa, &sb, va, vb, short);
        run.line(&format!("cmp {cfg} {wa} {wb}"), ord_str(eng));
    }

    // ---------------- thorough: every 6- and 7-card hand against its own best five (threads)
    if thorough {
        let results: Mutex<Vec<(Local, [[u64; 9]; 8])>> = Mutex::new(vec![]);
        let next = AtomicUsize::new(0);
        // work unit = (size k, index of highest card), biggest first
        let mut units: Vec<(usize, u32)> = vec![];
        for top in (0..ncards).rev() { for k in [7usize, 6] { if top as usize >= k - 1 { units.push((k, top)); } } }
        let nthreads = std::thread::available_parallelism().map(|n| n.get()).unwrap_or(8);
        std::thread::scope(|sc| {
            for _ in 0..nthreads {
                sc.spawn(|| {
                    let mut l = Local::default();
                    let mut d = [[0u64; 9]; 8];
                    loop {
                        let u = next.fetch_add(1, AO::Relaxed);
                        if u >= units.len() { break; }
                        let (k, top) = units[u];
                        let lim = 1u64 << top;
                        let mut x: u64 = (1u64 << (k - 1)) - 1;
                        while x < lim {
                            let bits = (x | 1u64 << top) << lo;
                            l.evals += 1;
                            l.checked += 1;
                            let (v, sub) = best5(bits, short);
                            let r = catch(move || (Strength::from(Hand::from(bits)), Strength::from(Hand::from(sub))));
                            match r {
                                None => l.fail("evaluator-panics", show(bits), "a strength".into(), "panic".into()),
                                Some((s, s5)) => if s.cmp(&s5) != Ordering::Equal {
                                    l.fail("best-five-not-found", format!("{} (bits {bits}), best five {}", show(bits), show(sub)),
                                        format!("Equal to its best five cards ({})", NAMES[cat_of_value(v, short) as usize]), format!("{} ({:?} vs {:?})", ord_str(s.cmp(&s5)), s, s5));
                                }
                            }
                            d[k][cat_of_value(v, short) as usize] += 1;
                            x = gosper(x);
                        }
                    }
                    results.lock().unwrap().push((l, d));
                });
            }
        });
        let mut all = [[0u64; 9]; 8];
        for (l, d) in results.into_inner().unwrap() {
            l.merge_into(&mut run);
            for k in 0..8 { for c in 0..9 { all[k][c] += d[k][c]; } }
        }
        for k in [6, 7] { for c in 0..9 { if all[k][c] > 0 { run.count_n(&format!("exhaustive-{k}-cards:{}", NAMES[c]), all[k][c]); } } }
        run.notes.push("thorough: every 6- and 7-card hand of the configured deck compared with its own best five cards (exhaustive)".into());
    }
    main_local.merge_into(&mut run);
    for k in [5, 6, 7] { for c in 0..9 { if dist[k][c] > 0 { run.count_n(&format!("{k}-cards:{}", NAMES[c]), dist[k][c]); } } }
    run.finish();
}
