// C05 — suit-isomorphism canonicalisation: the real `Permutation::from`, `Permutation::permute`,
// `Isomorphism::from`, `Isomorphism::is_canonical` against the Lean model (`canon` / `permute` lines)
// and against the search oracle, which is written from the property statement only:
//   * the 24 rows of `Permutation::exhaust()` are the 24 relabelings (own card-by-card relabel),
//   * canon is constant on the 24 images of an observation,
//   * canon(o) is one of the 24 images (pocket and board relabeled apart, by one relabeling),
//   * the permutation reported by `Permutation::from` is a bijection and produces canon(o),
//   * canon(canon o) = canon o, canon o is recognised by `is_canonical`,
//   * exactly one of the distinct images is recognised as canonical (one representative per orbit).
use robopoker::cards::hand::Hand;
use robopoker::cards::isomorphism::Isomorphism;
use robopoker::cards::observation::Observation;
use robopoker::cards::permutation::Permutation;
use rpharness::*;

type Pi = [u8; 4];

/// the specification of "relabel suits by π": card 4r+s ↦ 4r+π[s]
fn relabel(pi: &Pi, h: u64) -> u64 {
    let mut out = 0u64;
    let mut rest = h;
    while rest != 0 {
        let i = rest.trailing_zeros() as usize;
        out |= 1u64 << (4 * (i / 4) + pi[i % 4] as usize);
        rest &= rest - 1;
    }
    out
}

/// all 24 bijections of {0,1,2,3}, generated here (not copied from the repository)
fn s4() -> Vec<Pi> {
    let mut v = vec![];
    for a in 0..4u8 {
        for b in 0..4u8 {
            for c in 0..4u8 {
                for d in 0..4u8 {
                    let p = [a, b, c, d];
                    let mut seen = [false; 4];
                    p.iter().for_each(|&x| seen[x as usize] = true);
                    if seen.iter().all(|&x| x) {
                        v.push(p);
                    }
                }
            }
        }
    }
    v
}

/// the suit images of a real Permutation, read through its Display impl ("c -> d" per line)
fn digits(p: &Permutation) -> Option<Pi> {
    let s = format!("{p}");
    let mut out = [9u8; 4];
    let code = |c: &str| match c.trim() {
        "c" => Some(0u8),
        "d" => Some(1),
        "h" => Some(2),
        "s" => Some(3),
        _ => None,
    };
    let mut n = 0;
    for line in s.lines() {
        let (a, b) = line.split_once("->")?;
        out[code(a)? as usize] = code(b)?;
        n += 1;
    }
    if n == 4 && out.iter().all(|&x| x < 4) { Some(out) } else { None }
}

fn pistr(p: &Pi) -> String {
    p.iter().map(|d| d.to_string()).collect()
}

#[derive(Default)]
struct Part {
    evaluations: u64,
    spec_checked: u64,
    fails: Vec<(String, String, String, String)>,
    fail_count: u64,
    dist: std::collections::BTreeMap<String, u64>,
    canon: Vec<(u64, u64)>,
    lines: Vec<(String, String)>,
}
impl Part {
    fn fail(&mut self, class: &str, input: &str, expected: &str, got: &str) {
        self.fail_count += 1;
        if self.fails.len() < 40 {
            self.fails.push((class.into(), input.into(), expected.into(), got.into()));
        }
    }
}

struct Ctx {
    deck: &'static str,
    table: Vec<(Permutation, Pi)>, // exhaust() rows with the relabeling they denote
    low: Vec<u8>,                  // the four lowest cards of the deck
}
impl Ctx {
    /// a pre-flop observation whose pocket shares no card with `pocket` (an unrelated hand)
    fn cold_for(&self, pocket: u64) -> (u64, u64) {
        let free: Vec<u8> = self.low.iter().copied().filter(|c| pocket >> c & 1 == 0).collect();
        (1u64 << free[0] | 1u64 << free[1], 0)
    }
}

fn street(n: u32) -> &'static str {
    match n {
        0 => "preflop",
        3 => "flop",
        4 => "turn",
        5 => "river",
        _ => "other",
    }
}

/// one observation: correspondence lines (the canon line when `canon_line`, the permute lines of the
/// relabelings listed in `picks` when `lines`) and the complete oracle over the 24 images
fn case(ctx: &Ctx, part: &mut Part, pocket: u64, board: u64, canon_line: bool, lines: bool, picks: &[usize]) {
    let deck = ctx.deck;
    let input = format!("{deck} pocket={pocket} board={board}");
    let res = catch(move || {
        let o = Observation::from((Hand::from(pocket), Hand::from(board)));
        let iso = Isomorphism::from(o);
        let c = Observation::from(iso);
        let perm = Permutation::from(&o);
        (o, c, perm, Isomorphism::is_canonical(&o), Isomorphism::is_canonical(&c))
    });
    part.evaluations += 1;
    let op = format!("{deck} canon {pocket} {board}");
    let Some((o, c, perm, ico, icc)) = res else {
        if canon_line {
            part.lines.push((op.clone(), "panic".into()));
        }
        part.fail("canon-panics", &input, "a canonical form", "panic");
        return;
    };
    let (cp, cb) = (u64::from(*c.pocket()), u64::from(*c.public()));
    let pd = digits(&perm);
    if canon_line {
        let d = pd.map(|p| pistr(&p)).unwrap_or("????".into());
        part.lines.push((op, format!("{cp} {cb} {d} {} {}", ico as u8, icc as u8)));
    }
    // ---- oracle
    part.spec_checked += 1;
    match pd {
        None => part.fail("perm-not-four-suits", &input, "four suit images", &format!("{perm}").replace('\n', ";")),
        Some(p) => {
            let mut seen = [false; 4];
            p.iter().for_each(|&x| seen[x as usize] = true);
            if !seen.iter().all(|&x| x) {
                part.fail("perm-not-bijective", &input, "a bijection on suits", &pistr(&p));
            }
            if relabel(&p, pocket) != cp || relabel(&p, board) != cb {
                part.fail("canon-not-relabel-by-its-perm", &input,
                    &format!("pocket={} board={} (relabel by {})", relabel(&p, pocket), relabel(&p, board), pistr(&p)),
                    &format!("pocket={cp} board={cb}"));
            }
        }
    }
    if cp.count_ones() != 2 || cb.count_ones() != board.count_ones() || cp & cb != 0 {
        part.fail("canon-not-an-observation-of-the-street", &input, "2 pocket cards, same board size, disjoint", &format!("pocket={cp} board={cb}"));
    }
    // images
    let mut in_orbit = false;
    let mut images: Vec<(u64, u64, bool)> = Vec::with_capacity(24);
    for (k, (rp, pi)) in ctx.table.iter().enumerate() {
        let (wp, wb) = (relabel(pi, pocket), relabel(pi, board));
        let r = catch(move || {
            let img = rp.permute(&o);
            let ci = Observation::from(Isomorphism::from(img));
            (u64::from(*img.pocket()), u64::from(*img.public()), u64::from(*ci.pocket()), u64::from(*ci.public()), Isomorphism::is_canonical(&img))
        });
        part.evaluations += 1;
        let pop = format!("{deck} permute {} {pocket} {board}", pistr(pi));
        let Some((ip, ib, cip, cib, ici)) = r else {
            if lines && picks.contains(&k) {
                part.lines.push((pop.clone(), "panic".into()));
            }
            part.fail("permute-panics", &pop, "an observation", "panic");
            continue;
        };
        if lines && picks.contains(&k) {
            part.lines.push((pop.clone(), format!("{ip} {ib}")));
        }
        part.spec_checked += 1;
        if (ip, ib) != (wp, wb) {
            part.fail("permute-not-the-relabeling", &pop, &format!("{wp} {wb}"), &format!("{ip} {ib}"));
        }
        if (cip, cib) != (cp, cb) {
            part.fail("canon-not-invariant", &pop, &format!("canon of image = canon of original = {cp} {cb}"), &format!("{cip} {cib}"));
        }
        if (wp, wb) == (cp, cb) {
            in_orbit = true;
        }
        images.push((wp, wb, ici));
    }
    if !in_orbit {
        part.fail("canon-outside-orbit", &input, "one of the 24 relabelings of the input", &format!("pocket={cp} board={cb}"));
    }
    // idempotent / recognised
    let r = catch(move || {
        let cc = Observation::from(Isomorphism::from(c));
        (u64::from(*cc.pocket()), u64::from(*cc.public()))
    });
    part.evaluations += 1;
    match r {
        None => part.fail("canon-of-canon-panics", &input, &format!("{cp} {cb}"), "panic"),
        Some(cc) => {
            if cc != (cp, cb) {
                part.fail("canon-not-idempotent", &input, &format!("{cp} {cb}"), &format!("{} {}", cc.0, cc.1));
            }
        }
    }
    if !icc {
        part.fail("canon-not-recognised", &input, "is_canonical(canon o) = true", "false");
    }
    if ico != ((pocket, board) == (cp, cb)) {
        part.fail("is-canonical-disagrees-with-canon", &input, &format!("is_canonical(o) = (o == canon o) = {}", (pocket, board) == (cp, cb)), &format!("{ico}"));
    }
    images.sort();
    images.dedup();
    let ncanon = images.iter().filter(|x| x.2).count();
    if ncanon != 1 {
        part.fail("orbit-representative-not-unique", &input, "exactly one image recognised as canonical", &format!("{ncanon} of {} distinct images", images.len()));
    }
    *part.dist.entry(format!("street={} orbit-size={:02}", street(board.count_ones()), images.len())).or_insert(0) += 1;
    part.canon.push((cp, cb));
}


// ------------------------------------------------------------------------------------------------
// call-SEQUENCE streams: `Isomorphism::from` is specified as a pure function, so its answer must not
// depend on what was asked before on the same thread or what other threads ask meanwhile. For one
// card set (5..7 cards) every split into 2 pocket cards + board is canonicalised back-to-back, then
// A,B,A patterns, repeated identical calls, interleavings with `is_canonical` / `Permutation::from`,
// and an observation followed by a relabeling of it. Every recorded answer is judged on its own
// (relabel of *that* observation by its own permutation, inside *its* orbit with pocket and board kept
// apart) and all answers recorded for one observation must coincide.

#[derive(Clone, Copy)]
enum Step {
    Canon(usize),   // Isomorphism::from(obs[i]) — recorded
    IsCanon(usize), // Isomorphism::is_canonical(&obs[i]) — recorded
    Perm(usize),    // Permutation::from(&obs[i]) — executed for the interleaving only
}

fn subsets2(cards: &[u8]) -> Vec<(u64, u64)> {
    let union: u64 = cards.iter().fold(0, |a, c| a | 1u64 << c);
    let mut v = vec![];
    for i in 0..cards.len() {
        for j in i + 1..cards.len() {
            let pocket = 1u64 << cards[i] | 1u64 << cards[j];
            v.push((pocket, union & !pocket));
        }
    }
    v
}

fn seq_group(ctx: &Ctx, part: &mut Part, cards: &[u8], lines: bool, rot: usize, rng: &mut Rng) {
    let mut obs = subsets2(cards);
    let nsplit = obs.len();
    obs.rotate_left(rot % nsplit);
    // a relabeling of the first split (same or different card union, as it comes)
    let pi = ctx.table[1 + rng.below(23) as usize].1;
    obs.push((relabel(&pi, obs[0].0), relabel(&pi, obs[0].1)));
    let img = obs.len() - 1;
    let (i, j, k) = (rng.below(nsplit as u64) as usize, rng.below(nsplit as u64) as usize, rng.below(nsplit as u64) as usize);
    let mut script: Vec<Step> = vec![];
    // 1. every re-split of the same cards, back to back
    (0..nsplit).for_each(|x| script.push(Step::Canon(x)));
    // 2. A, B, A and A, B, B, A
    script.extend([Step::Canon(i), Step::Canon(j), Step::Canon(i)]);
    script.extend([Step::Canon(k), Step::Canon(i), Step::Canon(i), Step::Canon(k)]);
    // 3. repeated identical calls
    script.extend([Step::Canon(j), Step::Canon(j), Step::Canon(j)]);
    // 4. interleaved with the other entry points
    script.extend([Step::Canon(i), Step::IsCanon(j), Step::Perm(j), Step::Canon(j), Step::IsCanon(i), Step::Perm(k), Step::Canon(k), Step::IsCanon(k)]);
    // 5. an observation, a relabeling of it, the observation again, in reverse order of the splits
    script.extend([Step::Canon(0), Step::Canon(img), Step::Canon(0)]);
    (0..nsplit).rev().for_each(|x| script.push(Step::Canon(x)));
    run_script(ctx, part, &obs, &script, &[(0, img)], lines, "re-split");
    *part.dist.entry(format!("sequence cards={} splits={nsplit}", cards.len())).or_insert(0) += 1;
}

/// run a script of calls tightly on the current thread, then judge every recorded answer for its own observation
fn run_script(ctx: &Ctx, part: &mut Part, obs: &[(u64, u64)], script: &[Step], same_orbit: &[(usize, usize)], lines: bool, label: &str) {
    let deck = ctx.deck;
    // ---- run the script tightly on this thread
    let mk = |(p, b): (u64, u64)| Observation::from((Hand::from(p), Hand::from(b)));
    let mut canon_ans: Vec<(usize, Option<(u64, u64)>)> = Vec::with_capacity(script.len());
    let mut iscanon_ans: Vec<(usize, bool)> = vec![];
    let mut perm_ans: Vec<(usize, Option<Pi>)> = vec![];
    for st in script {
        match *st {
            Step::Canon(x) => {
                let o = obs[x];
                let r = catch(move || {
                    let c = Observation::from(Isomorphism::from(mk(o)));
                    (u64::from(*c.pocket()), u64::from(*c.public()))
                });
                canon_ans.push((x, r));
            }
            Step::IsCanon(x) => {
                let o = obs[x];
                if let Some(r) = catch(move || Isomorphism::is_canonical(&mk(o))) {
                    iscanon_ans.push((x, r));
                }
            }
            Step::Perm(x) => {
                let o = obs[x];
                if let Some(r) = catch(move || digits(&Permutation::from(&mk(o)))) {
                    perm_ans.push((x, r));
                }
            }
        }
        part.evaluations += 1;
    }
    // ---- judge every recorded answer
    let mut first: Vec<Option<(u64, u64)>> = vec![None; obs.len()];
    for (n, (x, r)) in canon_ans.iter().enumerate() {
        let (pocket, board) = obs[*x];
        let op = format!("{deck} canon {pocket} {board}");
        let input = format!("{deck} pocket={pocket} board={board} (call {n} of a {}-call {label} sequence on one thread)", canon_ans.len());
        let Some((cp, cb)) = *r else {
            if lines {
                part.lines.push((op, "panic".into()));
            }
            part.fail("seq-canon-panics", &input, "a canonical form", "panic");
            continue;
        };
        // the rest of the answer line; none of these goes through Isomorphism::from
        let cold = ctx.cold_for(pocket);
        let rest = catch(move || {
            // ask about an unrelated hand first so that this reference answer has no related predecessor
            let _ = Permutation::from(&mk(cold));
            let o = mk((pocket, board));
            let perm = Permutation::from(&o);
            let _ = Permutation::from(&mk(cold));
            let icc = catch(move || Isomorphism::is_canonical(&mk((cp, cb))));
            (perm, Isomorphism::is_canonical(&o), icc)
        });
        let Some((perm, ico, icc)) = rest else {
            part.fail("seq-perm-panics", &input, "a permutation", "panic");
            continue;
        };
        let pd = digits(&perm);
        if lines {
            let d = pd.map(|p| pistr(&p)).unwrap_or("????".into());
            let icc_s = icc.map(|b| (b as u8).to_string()).unwrap_or("panic".into());
            part.lines.push((op, format!("{cp} {cb} {d} {} {icc_s}", ico as u8)));
        }
        part.spec_checked += 1;
        if let Some(p) = pd {
            if relabel(&p, pocket) != cp || relabel(&p, board) != cb {
                part.fail("seq-canon-not-relabel-by-its-perm", &input,
                    &format!("pocket={} board={} (relabel by {})", relabel(&p, pocket), relabel(&p, board), pistr(&p)),
                    &format!("pocket={cp} board={cb}"));
            }
        }
        if !ctx.table.iter().any(|(_, pi)| relabel(pi, pocket) == cp && relabel(pi, board) == cb) {
            part.fail("seq-canon-outside-orbit", &input, "one of the 24 relabelings of this observation, pocket and board kept apart", &format!("pocket={cp} board={cb}"));
        }
        if icc != Some(true) {
            part.fail("seq-canon-not-recognised", &input, "is_canonical(canon o) = true", &format!("{icc:?}"));
        }
        match first[*x] {
            None => first[*x] = Some((cp, cb)),
            Some(f) => {
                if f != (cp, cb) {
                    part.fail("seq-canon-depends-on-call-history", &input, &format!("the answer of the earlier call: {} {}", f.0, f.1), &format!("{cp} {cb}"));
                }
            }
        }
    }
    // invariance inside the sequence: relabelings of each other have the same canonical form
    for &(x, y) in same_orbit {
        if let (Some(a), Some(b)) = (first[x], first[y]) {
            part.spec_checked += 1;
            if a != b {
                part.fail("seq-canon-not-invariant", &format!("{deck} pocket={} board={} and its relabeling pocket={} board={}", obs[x].0, obs[x].1, obs[y].0, obs[y].1), &format!("{} {}", a.0, a.1), &format!("{} {}", b.0, b.1));
            }
        }
    }
    // Permutation::from asked inside the sequence: it must produce the canonical form, whatever was asked before
    let mut firstp: Vec<Option<Pi>> = vec![None; obs.len()];
    for (x, r) in perm_ans {
        part.spec_checked += 1;
        let input = format!("{deck} pocket={} board={} (Permutation::from inside a call sequence)", obs[x].0, obs[x].1);
        let Some(p) = r else {
            part.fail("seq-perm-not-four-suits", &input, "four suit images", "unparsable");
            continue;
        };
        if let Some(c) = first[x] {
            if (relabel(&p, obs[x].0), relabel(&p, obs[x].1)) != c {
                part.fail("seq-perm-does-not-give-canon", &input, &format!("a permutation taking the observation to {} {}", c.0, c.1), &pistr(&p));
            }
        }
        match firstp[x] {
            None => firstp[x] = Some(p),
            Some(f) => {
                if f != p {
                    part.fail("seq-perm-depends-on-call-history", &input, &pistr(&f), &pistr(&p));
                }
            }
        }
    }
    for (x, r) in iscanon_ans {
        part.spec_checked += 1;
        if let Some(c) = first[x] {
            if r != (c == obs[x]) {
                part.fail("seq-is-canonical-disagrees-with-canon", &format!("{deck} pocket={} board={}", obs[x].0, obs[x].1), &format!("{}", c == obs[x]), &format!("{r}"));
            }
        }
    }
}

/// street walks of one deal: pre-flop → flop → turn → river back-to-back (each child = parent + the
/// next card(s)), the turn/river cards arriving in several orders, one parent followed by several
/// children, child → parent → child, the same walks through `is_canonical` and `Permutation::from`,
/// a relabeled copy of the walk, and every observation once more after an unrelated hand.
fn walk_group(ctx: &Ctx, part: &mut Part, pocket: u64, board: &[u8], lines: bool, rng: &mut Rng) {
    let bit = |c: u8| 1u64 << c;
    let mut obs: Vec<(u64, u64)> = vec![];
    let mut idx = std::collections::HashMap::new();
    let mut id = |obs: &mut Vec<(u64, u64)>, o: (u64, u64)| -> usize {
        *idx.entry(o).or_insert_with(|| {
            obs.push(o);
            obs.len() - 1
        })
    };
    let cold = id(&mut obs, ctx.cold_for(pocket));
    let pre = id(&mut obs, (pocket, 0));
    let mut script: Vec<Step> = vec![];
    let mut orbit: Vec<(usize, usize)> = vec![];
    // the deal in its own order, through each entry point
    let f0 = bit(board[0]) | bit(board[1]) | bit(board[2]);
    let main = [pre, id(&mut obs, (pocket, f0)), id(&mut obs, (pocket, f0 | bit(board[3]))), id(&mut obs, (pocket, f0 | bit(board[3]) | bit(board[4])))];
    script.extend(main.iter().map(|&x| Step::Canon(x)));
    script.push(Step::Canon(cold));
    script.extend(main.iter().map(|&x| Step::Perm(x)));
    script.push(Step::Perm(cold));
    script.extend(main.iter().map(|&x| Step::IsCanon(x)));
    script.push(Step::IsCanon(cold));
    // the five board cards arriving in other orders: choose river card r and turn card t, flop = the rest
    let mut orders: Vec<(usize, usize)> = (0..5).flat_map(|r| (0..5).filter(move |&t| t != r).map(move |t| (t, r))).collect();
    let norders = if lines { 6 } else { 20 };
    for _ in 0..norders.min(orders.len()) {
        let (t, r) = orders.swap_remove(rng.below(orders.len() as u64) as usize);
        let all5: u64 = board.iter().fold(0, |a, &c| a | bit(c));
        let flop = all5 & !bit(board[t]) & !bit(board[r]);
        let w = [id(&mut obs, (pocket, flop)), id(&mut obs, (pocket, flop | bit(board[t]))), id(&mut obs, (pocket, all5))];
        match rng.below(3) {
            0 => script.extend(w.iter().map(|&x| Step::Canon(x))),
            1 => script.extend(w.iter().flat_map(|&x| [Step::Perm(x), Step::Canon(x)])),
            _ => script.extend(w.iter().flat_map(|&x| [Step::IsCanon(x), Step::Canon(x)])),
        }
        // child → parent → child, and the parent followed by another child
        script.extend([Step::Canon(w[1]), Step::Canon(w[0]), Step::Canon(w[1])]);
        let other = id(&mut obs, (pocket, flop | bit(board[r])));
        script.extend([Step::Canon(w[0]), Step::Canon(other), Step::Canon(w[0]), Step::Canon(w[1]), Step::Canon(w[2])]);
    }
    // a relabeled copy of the main walk, walked the same way
    let pi = ctx.table[1 + rng.below(23) as usize].1;
    for &x in &main {
        let (xp, xb) = obs[x];
        let y = id(&mut obs, (relabel(&pi, xp), relabel(&pi, xb)));
        script.push(Step::Canon(y));
        if y != x {
            orbit.push((x, y));
        }
    }
    // every observation once more right after an unrelated hand
    for x in 1..obs.len() {
        script.extend([Step::Canon(cold), Step::Canon(x)]);
    }
    run_script(ctx, part, &obs, &script, &orbit, lines, "street-walk");
    *part.dist.entry("street-walk deals".to_string()).or_insert(0) += 1;
}

fn cards_of(mask: u64) -> Vec<u8> {
    (0..64u8).filter(|i| mask >> i & 1 == 1).collect()
}

fn merge(run: &mut Run, part: Part) {
    run.evaluations += part.evaluations;
    run.spec_checked += part.spec_checked;
    for (op, ans) in &part.lines {
        run.line(op, ans);
    }
    for (k, v) in &part.dist {
        run.count_n(k, *v);
    }
    for c in &part.canon {
        run.distinct(c);
    }
    let extra = part.fail_count - part.fails.len() as u64;
    for (c, i, e, g) in &part.fails {
        run.fail(c, i, e, g);
    }
    run.failure_count += extra;
}

fn main() {
    let a = args();
    let mut rng = Rng::new(a.seed);
    let mut run = Run::new(&a.out);
    quiet_panics();
    let deck: &'static str = if is_shortdeck() { "short" } else { "std" };
    let full = u64::from(Hand::from(Hand::mask()));
    let all = cards_of(full);

    // ---- the 24 rows of Permutation::exhaust() are exactly the 24 bijections
    let mine = s4();
    let mut table = vec![];
    let mut rows: Vec<Pi> = vec![];
    for p in Permutation::exhaust().iter() {
        run.spec_checked += 1;
        match digits(p) {
            Some(d) => {
                rows.push(d);
                table.push((*p, d));
            }
            None => run.fail("exhaust-row-not-four-suits", &format!("{p}").replace('\n', ";"), "four suit images", "unparsable"),
        }
    }
    let mut sorted = rows.clone();
    sorted.sort();
    sorted.dedup();
    if sorted != mine {
        run.fail("exhaust-is-not-S4", "Permutation::exhaust()", "the 24 distinct bijections of 4 suits", &format!("{} distinct rows", sorted.len()));
    }
    match digits(&Permutation::identity()) {
        Some([0, 1, 2, 3]) => {}
        other => run.fail("identity-is-not-identity", "Permutation::identity()", "0123", &format!("{other:?}")),
    }
    let ctx = Ctx { deck, table, low: all[..4].to_vec() };
    let allpicks: Vec<usize> = (0..24).collect();

    // ---- pre-flop: exhaustive, every relabeling as a line
    let mut part = Part::default();
    for i in 0..all.len() {
        for j in i + 1..all.len() {
            let pocket = 1u64 << all[i] | 1u64 << all[j];
            case(&ctx, &mut part, pocket, 0, true, true, &allpicks);
        }
    }
    {
        // one canonical form per orbit: the number of distinct pre-flop canonical forms is the number of orbits
        let mut classes = part.canon.clone();
        classes.sort();
        classes.dedup();
        let want = robopoker::cards::street::Street::Pref.n_isomorphisms();
        run.spec_checked += 1;
        run.notes.push(format!("distinct canonical pre-flop forms = {} (Street::Pref.n_isomorphisms() = {want})", classes.len()));
        if classes.len() != want {
            run.fail("preflop-class-count", "all pre-flop observations", &format!("{want} canonical forms"), &format!("{}", classes.len()));
        }
    }
    merge(&mut run, part);

    // ---- flop: exhaustive in the thorough tier (parallel over pockets; a sample of it as lines)
    if a.thorough() {
        let mut pockets = vec![];
        for i in 0..all.len() {
            for j in i + 1..all.len() {
                pockets.push(1u64 << all[i] | 1u64 << all[j]);
            }
        }
        let nthreads = std::thread::available_parallelism().map(|n| n.get()).unwrap_or(4).min(16);
        let chunks: Vec<Vec<u64>> = (0..nthreads).map(|t| pockets.iter().copied().skip(t).step_by(nthreads).collect()).collect();
        let ctxr = &ctx;
        let allr = &all;
        let parts: Vec<Part> = std::thread::scope(|s| {
            let hs: Vec<_> = chunks
                .iter()
                .map(|chunk| {
                    s.spawn(move || {
                        let mut part = Part::default();
                        let mut n = 0u64;
                        for &pocket in chunk {
                            let rest: Vec<u8> = allr.iter().copied().filter(|c| pocket >> c & 1 == 0).collect();
                            for x in 0..rest.len() {
                                for y in x + 1..rest.len() {
                                    for z in y + 1..rest.len() {
                                        let board = 1u64 << rest[x] | 1u64 << rest[y] | 1u64 << rest[z];
                                        n += 1;
                                        let lines = n % 97 == 0;
                                        let pick = [(n / 97 % 24) as usize];
                                        case(ctxr, &mut part, pocket, board, lines, lines, &pick);
                                    }
                                }
                            }
                            // keep memory bounded: distinct classes are counted per pocket chunk by hash later
                            if part.canon.len() > 4_000_000 {
                                part.canon.sort();
                                part.canon.dedup();
                            }
                        }
                        part.canon.sort();
                        part.canon.dedup();
                        part
                    })
                })
                .collect();
            hs.into_iter().map(|h| h.join().expect("worker")).collect()
        });
        // distinct canonical flop forms = number of flop orbits (cross-check against the published count)
        let mut classes: Vec<(u64, u64)> = parts.iter().flat_map(|p| p.canon.iter().copied()).collect();
        classes.sort();
        classes.dedup();
        run.notes.push(format!("thorough: all flop observations enumerated; distinct canonical flop forms = {} (Street::Flop.n_isomorphisms() = {})",
            classes.len(), robopoker::cards::street::Street::Flop.n_isomorphisms()));
        run.spec_checked += 1;
        if classes.len() != robopoker::cards::street::Street::Flop.n_isomorphisms() {
            run.fail("flop-class-count", "all flop observations", &format!("{} canonical forms", robopoker::cards::street::Street::Flop.n_isomorphisms()), &format!("{}", classes.len()));
        }
        for p in parts {
            merge(&mut run, p);
        }
    }

    // ---- random flop / turn / river
    let nrandom = if a.thorough() { 1_500_000 } else { 300_000 };
    let mut part = Part::default();
    for k in 0..nrandom {
        let n = [3usize, 4, 5][(k % 3) as usize];
        // one case in eight is drawn from few ranks / few suits so that tied suits are common
        let pool = if k % 8 == 7 {
            let r0 = rng.below(all.len() as u64 / 4 - 2) as usize * 4;
            let sub: u64 = all[r0..r0 + 12].iter().fold(0, |acc, c| acc | 1u64 << c);
            sub
        } else {
            full
        };
        let pocket = rng.cards(2, pool);
        let board = rng.cards(n, pool & !pocket);
        let picks = [rng.below(24) as usize, rng.below(24) as usize];
        case(&ctx, &mut part, pocket, board, (k / 3) % 5 == 0, true, &picks); // every street gets canon lines
        if part.lines.len() > 200_000 {
            let p = std::mem::take(&mut part);
            merge(&mut run, p);
        }
    }
    merge(&mut run, part);


    // ---- call sequences on one thread, the same card sets from several threads at once
    let ngroups_lines = if a.thorough() { 12_000 } else { 1_000 };
    let ngroups_more = if a.thorough() { 120_000 } else { 24_000 };
    let mut groups: Vec<Vec<u8>> = vec![];
    for g in 0..ngroups_lines + ngroups_more {
        let n = 5 + g % 3;
        let pool = if g % 8 == 7 {
            let r0 = rng.below(all.len() as u64 / 4 - 2) as usize * 4;
            all[r0..r0 + 12].iter().fold(0, |acc, c| acc | 1u64 << c)
        } else {
            full
        };
        groups.push(cards_of(rng.cards(n, pool)));
    }
    let nwalks_lines = if a.thorough() { 6_000 } else { 300 };
    let nwalks_more = if a.thorough() { 60_000 } else { 8_000 };
    let mut deals: Vec<(u64, Vec<u8>)> = vec![];
    for g in 0..nwalks_lines + nwalks_more {
        let pool = if g % 4 == 3 {
            let r0 = rng.below(all.len() as u64 / 4 - 2) as usize * 4;
            all[r0..r0 + 12].iter().fold(0, |acc, c| acc | 1u64 << c)
        } else {
            full
        };
        let pocket = rng.cards(2, pool);
        let mut board = cards_of(rng.cards(5, pool & !pocket));
        for i in (1..board.len()).rev() {
            board.swap(i, rng.below(i as u64 + 1) as usize);
        }
        deals.push((pocket, board));
    }
    let dealsr = &deals;
    let nthreads = 4usize;
    let seeds: Vec<Rng> = (0..nthreads).map(|_| rng.fork()).collect();
    let ctxr = &ctx;
    let groupsr = &groups;
    let parts: Vec<Part> = std::thread::scope(|s| {
        let hs: Vec<_> = seeds
            .into_iter()
            .enumerate()
            .map(|(t, mut trng)| {
                s.spawn(move || {
                    let mut part = Part::default();
                    for (g, cards) in groupsr.iter().enumerate() {
                        // every thread walks the groups that carry lines (thread 0 writes them, the others ask the
                        // same card sets in a rotated order at the same time); the remaining groups are shared out
                        if g < ngroups_lines || g % nthreads == t {
                            seq_group(ctxr, &mut part, cards, t == 0 && g < ngroups_lines, t * 3 + g, &mut trng);
                        }
                    }
                    for (g, (pocket, board)) in dealsr.iter().enumerate() {
                        if g < nwalks_lines || g % nthreads == t {
                            walk_group(ctxr, &mut part, *pocket, board, t == 0 && g < nwalks_lines, &mut trng);
                        }
                    }
                    part
                })
            })
            .collect();
        hs.into_iter().map(|h| h.join().expect("sequence worker")).collect()
    });
    for p in parts {
        merge(&mut run, p);
    }

    run.exhaustive = false;
    run.rule = format!(
        "deck={deck}: all {} pre-flop observations x all 24 relabelings (exhaustive, every image a correspondence line){} + {nrandom} random flop/turn/river observations (1/8 drawn from three adjacent ranks so that tied suits are frequent) x all 24 relabelings through the real permute/Isomorphism::from/is_canonical; correspondence lines: canon of every pre-flop and every fifth random observation + all 24 (pre-flop) or 2 random (post-flop) permute images; oracle on all 24 images of every observation; plus call-sequence streams: for {} random card sets of 5/6/7 cards every split into pocket+board is canonicalised back-to-back on one thread, then A,B,A / A,B,B,A patterns, repeated calls, interleavings with is_canonical and Permutation::from, an observation followed by a relabeling of it ({} of the sets as canon correspondence lines, those sets asked by 4 threads concurrently in rotated order), each answer judged for its own observation and against the other answers for the same observation; street-walk streams over {} random deals ({} as correspondence lines, those by 4 threads at once): pre-flop, flop, turn, river of one hand back-to-back through Isomorphism::from, Permutation::from and is_canonical, the turn/river cards arriving in 6 (20 without lines) other orders, child-parent-child, one parent then two children, a relabeled copy of the walk, and every observation again right after an unrelated hand; distinct_nontrivial = distinct canonical forms reached; exhaustive for pre-flop{}, sampled for the later streets",
        all.len() * (all.len() - 1) / 2,
        if a.thorough() { " + all flop observations x 24 (exhaustive, oracle on all, 1/97 as correspondence lines)" } else { "" },
        ngroups_lines + ngroups_more,
        ngroups_lines,
        nwalks_lines + nwalks_more,
        nwalks_lines,
        if a.thorough() { " and flop" } else { "" },
    );
    run.finish();
}
