// C07 — river equity = exact win/loss enumeration, invariant under suit relabeling; turn histogram.
// Correspondence: real Observation::equity / Abstraction::from / Histogram::from vs the Lean model.
// Search oracle (independent): true poker-rules enumeration over all unseen two-card holdings,
// bit-identical f32 on all 24 relabelings, bucket and 46-child histogram constant on the class.
use robopoker::cards::hand::Hand;
use robopoker::cards::observation::Observation;
use robopoker::cards::permutation::Permutation;
use robopoker::clustering::abstraction::Abstraction;
use robopoker::clustering::histogram::Histogram;
use rpharness::*;

fn deck_mask() -> u64 {
    u64::from(Hand::from(Hand::mask()))
}
fn obs(pocket: u64, public: u64) -> Observation {
    Observation::from((Hand::from(pocket), Hand::from(public)))
}
fn hist_of(o: &Observation) -> Vec<(usize, usize)> {
    let h = Histogram::from(*o);
    let mut v: Vec<(usize, usize)> = h.verif_counts().into_iter().map(|(a, c)| (a.index(), c)).collect();
    v.sort();
    v
}

fn main() {
    let a = args();
    let mut rng = Rng::new(a.seed);
    let mut run = Run::new(&a.out);
    quiet_panics();
    let short = is_shortdeck();
    let deck = if short { "short" } else { "std" };
    let full = deck_mask();
    let nriver = if a.thorough() { 20000 } else { 1200 };
    let nturn = if a.thorough() { 300 } else { 18 };
    let perms = Permutation::exhaust();
    run.rule = format!("{nriver} random river observations (structured: 40% with >=3 board cards of one suit, 20% paired boards, rest uniform) and {nturn} random turn observations of the configured deck; each river observation: real equity + bucket on the original and on all 24 suit relabelings, independent rules oracle over all unseen two-card holdings; each turn observation: real 46-child histogram on the original and 5 relabelings; non-trivial = equity strictly between 0 and 1; distinct by observation");
    let gen_obs = |rng: &mut Rng, nboard: usize| -> (u64, u64) {
        let style = rng.below(10);
        let mut public = 0u64;
        if style < 4 {
            // flush-heavy board: 3..nboard cards of one suit
            let suit = rng.below(4);
            let suit_mask = (0..13).fold(0u64, |m, r| m | 1u64 << (4 * r + suit)) & full;
            let k = 3 + rng.below((nboard - 2) as u64) as usize;
            public = rng.cards(k.min(nboard), suit_mask);
        } else if style < 6 {
            // paired board
            let r = loop { let r = rng.below(13); if (0xFu64 << (4 * r)) & full != 0 { break r; } };
            public = rng.cards(2, (0xFu64 << (4 * r)) & full);
        }
        let missing = nboard - public.count_ones() as usize;
        public |= rng.cards(missing, full & !public);
        let pocket = rng.cards(2, full & !public);
        (pocket, public)
    };
    // boards that are themselves a made hand: straight flush (incl. the wheel and the royal), quads
    // with any kicker, broadway / a straight with no three cards of a suit, a full house — with a
    // pocket that holds a card of the board's suit above it (with and without a gap), below it, or none
    let mut special: Vec<(u64, u64)> = vec![];
    {
        let ranks: Vec<u64> = (0..13u64).filter(|r| (0xFu64 << (4 * r)) & full != 0).collect();
        let lo = ranks[0];
        for suit in 0..4u64 {
            let card = |r: u64| 1u64 << (4 * r + suit);
            let mut runs: Vec<Vec<u64>> = vec![];
            for start in lo..=8 { runs.push((start..start + 5).collect()); }
            runs.push(vec![12, lo, lo + 1, lo + 2, lo + 3]); // the deck's wheel
            for run5 in runs {
                let board = run5.iter().fold(0u64, |m, r| m | card(*r));
                let suited_rest: Vec<u64> = ranks.iter().copied().filter(|r| board & card(*r) == 0).collect();
                for r in suited_rest.iter().take(8) {
                    let other = rng.cards(1, full & !board & !card(*r));
                    special.push((card(*r) | other, board));
                }
                special.push((rng.cards(2, full & !board), board));
            }
        }
        for _ in 0..40 {
            // quads + kicker, full house, straight on a rainbow-ish board
            let r1 = ranks[rng.below(ranks.len() as u64) as usize];
            let r2 = loop { let r = ranks[rng.below(ranks.len() as u64) as usize]; if r != r1 { break r; } };
            let quads = (0xFu64 << (4 * r1)) | rng.cards(1, 0xFu64 << (4 * r2));
            special.push((rng.cards(2, full & !quads), quads));
            let boat = rng.cards(3, 0xFu64 << (4 * r1)) | rng.cards(2, 0xFu64 << (4 * r2));
            special.push((rng.cards(2, full & !boat), boat));
            let start = lo + rng.below(9 - lo);
            let straight = (start..start + 5).fold(0u64, |m, r| m | 1u64 << (4 * r + rng.below(4)));
            special.push((rng.cards(2, full & !straight), straight));
        }
    }
    let nspecial = special.len();
    for t in 0..nriver + nspecial {
        let (pocket, public) = if t < nspecial { special[t] } else { gen_obs(&mut rng, 5) };
        let o = obs(pocket, public);
        run.evaluations += 1;
        let eq = match catch(|| o.equity()) { Some(e) => e, None => { run.line(&format!("equity {deck} {pocket} {public}"), "panic"); run.fail("equity-panics", &format!("{pocket} {public}"), "a value", "panic"); continue; } };
        let bucket = catch(|| Abstraction::from(eq).index());
        run.line(&format!("equity {deck} {pocket} {public}"), &format!("{} {}", eq.to_bits(), bucket.map(|b| b.to_string()).unwrap_or("panic".into())));
        // --- oracle: true enumeration
        let seen = pocket | public;
        let hero = poker::best5(seen, short);
        let unseen: Vec<u8> = (0..52u8).filter(|c| (full & !seen) >> c & 1 == 1).collect();
        let (mut w, mut t, mut only_flush_ties) = (0u32, 0u32, true);
        let (mut we, mut te) = (0u32, 0u32); // what the engine's own comparison gives (for classification)
        let hs = robopoker::cards::strength::Strength::from(Hand::from(seen));
        for i in 0..unseen.len() {
            for j in i + 1..unseen.len() {
                let v = public | 1u64 << unseen[i] | 1u64 << unseen[j];
                let vb = poker::best5(v, short);
                let truth = hero.cmp(&vb);
                if truth != std::cmp::Ordering::Equal { t += 1; }
                if truth == std::cmp::Ordering::Greater { w += 1; }
                let vs = robopoker::cards::strength::Strength::from(Hand::from(v));
                let eng = hs.cmp(&vs);
                if eng != std::cmp::Ordering::Equal { te += 1; }
                if eng == std::cmp::Ordering::Greater { we += 1; }
                if eng != truth {
                    let fl = if short { 6 } else { 5 };
                    let both_flush_same_top = hero.0 == fl && vb.0 == fl && hero.1[0] == vb.1[0] && eng == std::cmp::Ordering::Equal;
                    if !both_flush_same_top { only_flush_ties = false; }
                }
            }
        }
        run.spec_checked += 1;
        let want = if t == 0 { 0.5f32 } else { w as f32 / t as f32 };
        let nvill = unseen.len() * (unseen.len() - 1) / 2;
        run.count(&format!("villain-holdings={nvill}"));
        if eq.to_bits() != want.to_bits() {
            let input = format!("river pocket={pocket} public={public} ({})", o);
            if (we, te) != (w, t) && only_flush_ties && eq.to_bits() == (if te == 0 { 0.5f32 } else { we as f32 / te as f32 }).to_bits() {
                run.fail("equity-flush-lower-cards-ignored", &input, &format!("{w}/{t} = {want}"), &format!("{we}/{te} = {eq}"));
            } else {
                run.fail("equity-not-exact-enumeration", &input, &format!("{w}/{t} = {want}"), &format!("{eq}"));
            }
        }
        if !(eq >= 0.0 && eq <= 1.0) {
            run.fail("equity-out-of-range", &format!("{pocket} {public}"), "in [0,1]", &format!("{eq}"));
        }
        if eq > 0.0 && eq < 1.0 { run.distinct(&(pocket, public)); }
        run.count(&format!("equity-decile={}", ((eq * 10.0) as u32).min(9)));
        // --- invariance on all 24 relabelings (bit-identical f32, same bucket)
        for p in perms.iter() {
            let o2 = p.permute(&o);
            let e2 = catch(|| o2.equity());
            run.spec_checked += 1;
            if e2.map(|e| e.to_bits()) != Some(eq.to_bits()) {
                run.fail("equity-depends-on-suits", &format!("river {} relabeled to {}", o, o2), &format!("{eq}"), &format!("{:?}", e2));
                break;
            }
        }
    }
    // --- the consequence the property names: a table holding one river bucket per CLASS (keyed by the
    // canonical form, as Lookup::grow(River) builds it) must answer, through the real Lookup::lookup,
    // every member of the class with that member's own river bucket
    {
        use robopoker::cards::isomorphism::Isomorphism;
        use robopoker::clustering::lookup::Lookup;
        let nclass = if a.thorough() { 1500 } else { 160 };
        let mut members: Vec<Observation> = vec![];
        let mut map = std::collections::BTreeMap::new();
        for _ in 0..nclass {
            let (pocket, public) = gen_obs(&mut rng, 5);
            let o = obs(pocket, public);
            let canon = match catch(|| Isomorphism::from(o)) { Some(c) => c, None => continue };
            let rep = Observation::from(canon);
            let bucket = match catch(|| Abstraction::from(rep.equity())) { Some(b) => b, None => continue };
            map.insert(canon, bucket);
            members.push(o);
        }
        let table = Lookup::from(map);
        for o in members {
            for p in perms.iter() {
                let o2 = p.permute(&o);
                run.evaluations += 1;
                run.spec_checked += 1;
                let own = catch(|| Abstraction::from(o2.equity()));
                let got = catch(std::panic::AssertUnwindSafe(|| table.lookup(&o2)));
                if own.is_none() || got != own {
                    run.fail("class-table-does-not-serve-member", &format!("river {} (a relabeling of {}) looked up in a table keyed by canonical forms", o2, o),
                        &format!("its own river bucket {:?}", own.map(|b| b.to_string())), &format!("{:?}", got.map(|b| b.to_string())));
                    break;
                }
            }
            run.count("class-table-lookup");
        }
    }
    for t in 0..nturn {
        let (pocket, public) = if t % 3 == 0 {
            // double-paired two-tone board (e.g. Kh Kd 7h 7d) with a pocket that is asymmetric in the two suits
            let ranks: Vec<u64> = (0..13u64).filter(|r| (0xFu64 << (4 * r)) & full != 0).collect();
            let r1 = ranks[rng.below(ranks.len() as u64) as usize];
            let r2 = loop { let r = ranks[rng.below(ranks.len() as u64) as usize]; if r != r1 { break r; } };
            let s1 = rng.below(4);
            let s2 = loop { let s = rng.below(4); if s != s1 { break s; } };
            let public = 1u64 << (4 * r1 + s1) | 1u64 << (4 * r1 + s2) | 1u64 << (4 * r2 + s1) | 1u64 << (4 * r2 + s2);
            let suit1 = (0..13).fold(0u64, |m, r| m | 1u64 << (4 * r + s1)) & full & !public;
            let pocket = if rng.chance(1, 2) { rng.cards(2, suit1) } else { rng.cards(1, suit1) | rng.cards(1, full & !public & !suit1) };
            (pocket, public)
        } else {
            gen_obs(&mut rng, 4)
        };
        let o = obs(pocket, public);
        run.evaluations += 1;
        let h = match catch(|| hist_of(&o)) { Some(h) => h, None => { run.line(&format!("hist {deck} {pocket} {public}"), "panic"); continue; } };
        run.line(&format!("hist {deck} {pocket} {public}"), &h.iter().map(|(i, c)| format!("{i}:{c}")).collect::<Vec<_>>().join(","));
        run.spec_checked += 1;
        // independent oracle: bucket of every river child from the rules enumeration
        {
            let mut want: std::collections::BTreeMap<usize, usize> = Default::default();
            let seen4 = pocket | public;
            for c in (0..52u8).filter(|c| (full & !seen4) >> c & 1 == 1) {
                let board = public | 1u64 << c;
                let seen = pocket | board;
                let hero = poker::best5(seen, short);
                let unseen: Vec<u8> = (0..52u8).filter(|x| (full & !seen) >> x & 1 == 1).collect();
                let (mut w, mut tt) = (0u32, 0u32);
                for i in 0..unseen.len() {
                    for j in i + 1..unseen.len() {
                        let vb = poker::best5(board | 1u64 << unseen[i] | 1u64 << unseen[j], short);
                        match hero.cmp(&vb) { std::cmp::Ordering::Greater => { w += 1; tt += 1 } std::cmp::Ordering::Less => { tt += 1 } _ => {} }
                    }
                }
                let eq = if tt == 0 { 0.5f32 } else { w as f32 / tt as f32 };
                *want.entry((eq * 100.0).round() as usize).or_insert(0) += 1;
            }
            let want: Vec<(usize, usize)> = want.into_iter().collect();
            if want != h {
                run.fail("histogram-not-exact-enumeration", &format!("turn pocket={pocket} public={public} ({o})"), &format!("{:?}", want), &format!("{:?}", h));
            }
        }
        let nchild: usize = h.iter().map(|x| x.1).sum();
        let expect_children = (full & !(pocket | public)).count_ones() as usize;
        if nchild != expect_children {
            run.fail("histogram-wrong-mass", &format!("turn {o}"), &format!("{expect_children} children"), &format!("{nchild}"));
        }
        for _ in 0..5 {
            let p = perms[rng.below(24) as usize];
            let o2 = p.permute(&o);
            let h2 = catch(|| hist_of(&o2));
            run.spec_checked += 1;
            if h2.as_ref() != Some(&h) {
                run.fail("histogram-depends-on-suits", &format!("turn {} relabeled to {}", o, o2), &format!("{:?}", h), &format!("{:?}", h2));
                break;
            }
        }
        run.distinct(&(pocket, public, 4));
        run.count("turn-histograms");
    }
    run.finish();
}
