// C19 — discounted accumulation: the real `Profile::add_regret`, `add_policy`, `next`, `walker`,
// `weight`, `Discount::policy/regret`, `Phase::from` on random sequences of per-epoch regret and
// strategy vectors at one information set (lengths 1..2000), against
//   (a) the Lean model (binary32 instantiation of the definitions the theorems are about), and
//   (b) the search oracle: the closed forms of the property statement evaluated in f64 — stored
//       average strategy = sum_s p_s ((s+1)/(T+1))^gamma, normalised = (s+1)^gamma-weighted mean;
//       stored regret = sum_s r_s w_s with w_s in (0,1], non-decreasing in s, 1 after the
//       discount phase; walker = epoch parity starting with player 0.
use robopoker::clustering::abstraction::Abstraction;
use robopoker::gameplay::ply::Turn;
use robopoker::mccfr::bucket::Bucket;
use robopoker::mccfr::discount::Discount;
use robopoker::mccfr::edge::Edge;
use robopoker::mccfr::odds::Odds;
use robopoker::mccfr::path::Path;
use robopoker::mccfr::phase::Phase;
use robopoker::mccfr::policy::Policy;
use robopoker::mccfr::profile::Profile;
use robopoker::mccfr::regret::Regret;
use robopoker::verif::{CFR_DISCOUNT_PHASE, CFR_PRUNNING_PHASE};
use rpharness::*;
use std::collections::BTreeMap;
use std::panic::AssertUnwindSafe;

// the configured exponents, read from the property's anchor (discount.rs: Discount::default);
// the oracle deliberately has its own copy: a change of the source constants must show up as a
// disagreement with the specification the property was written against
const GAMMA: f64 = 2.0;
const ALPHA: f64 = 1.5;
const OMEGA: f64 = 0.5;

fn tok(x: f32) -> String {
    format!("~{:e}", x as f64)
}

fn walker_of(p: &Profile) -> String {
    match p.walker().0 {
        Turn::Choice(k) => k.to_string(),
        other => format!("{other}"),
    }
}

fn menu(rng: &mut Rng, n: usize) -> Vec<Edge> {
    let all = [
        Edge::Fold, Edge::Check, Edge::Call, Edge::Shove,
        Edge::Raise(Odds(1, 2)), Edge::Raise(Odds(1, 1)), Edge::Raise(Odds(2, 1)), Edge::Raise(Odds(3, 4)),
    ];
    let mut pool: Vec<Edge> = all.to_vec();
    let mut out = vec![];
    for _ in 0..n {
        let i = rng.below(pool.len() as u64) as usize;
        out.push(pool.swap_remove(i));
    }
    out.sort();
    out
}

fn regret_value(rng: &mut Rng, style: u64) -> f32 {
    match style {
        0 => (rng.unit() * 200.0 - 100.0) as f32,
        1 => if rng.chance(1, 3) { 0.0 } else { (rng.unit() * 2e4 - 1e4) as f32 },
        2 => (rng.range(-3, 3) as f32) * 0.5,
        3 => -(rng.unit() * 3e5) as f32,
        4 => (rng.unit() * 50.0) as f32,
        6 => -(250.0 + rng.unit() * 150.0) as f32, // one-sided, crosses -3e5 after ~1000 epochs
        7 => (250.0 + rng.unit() * 150.0) as f32,
        _ => {
            let m = f32::from_bits(0x3000_0000 + rng.below(0x1800_0000) as u32); // 4.6e-10 .. 1.8e19
            if rng.chance(1, 2) { m } else { -m }
        }
    }
}

/// d_u of the property statement (f64): the factor applied at counter u when a regret of the
/// given sign is added
fn d_spec(u: usize, r: f64) -> f64 {
    if u >= CFR_DISCOUNT_PHASE || r == 0.0 {
        1.0
    } else {
        let x = (u as f64).powf(if r > 0.0 { ALPHA } else { OMEGA });
        x / (x + 1.0)
    }
}


/// one sequence of epochs at one information set (inputs only)
struct Spec {
    case: String,
    n: usize,
    len: usize,
    start: usize,
    edges: Vec<Edge>,
    bucket: Bucket,
    witnessed: bool,
    prior: Vec<(f32, f32)>,
    style: u64,
    dist: bool,
    rs: Vec<Vec<f32>>,
    ps: Vec<Vec<f32>>,
    /// also read the result back through Profile::save (sequential cases only: one file per process)
    save: bool,
}

/// what the real code did with it
struct Outcome {
    ok: bool,
    fresh_walker: String,
    fresh_epochs: usize,
    walkers: Vec<String>,
    counters: Vec<usize>,
    stored: Vec<(f32, f32)>,
    weights: Vec<f32>,
    /// the same average strategy read through `Profile::policy(bucket)` (what `Blueprint::policy` hands to players)
    via_policy: Vec<f32>,
    /// ... and through `Profile::save()`: (regret, policy) of the rows of the written file, when asked for
    via_file: Option<Vec<(f32, f32)>>,
    epochs: usize,
    walker: String,
}

fn make_spec(rng: &mut Rng, case: usize, label: &str, force_len: Option<usize>, force_style: Option<u64>) -> Spec {
        let n = 1 + rng.below(5) as usize;
        let len = if let Some(l) = force_len { l } else { match case % 6 {
            0 => 1 + rng.below(4) as usize,
            1 => 1 + rng.below(40) as usize,
            2 => 2000,
            3 => CFR_DISCOUNT_PHASE - 5 + rng.below(40) as usize,
            _ => 1 + rng.below(2000) as usize,
        } };
        let start = match rng.below(10) {
            0 => 1 + rng.below(3) as usize,
            1 => CFR_DISCOUNT_PHASE - 10 + rng.below(20) as usize,
            2 => CFR_PRUNNING_PHASE - 10 + rng.below(20) as usize,
            3 => rng.below(5000) as usize,
            _ => 0,
        };
        let edges = menu(rng, n);
        let bucket = Bucket::from((Path::from(rng.next() >> 4), Abstraction::from((rng.next() % 169) as u64), Path::from(rng.next() >> 4)));
        // prior: what `witness` stores (regret 0, policy 1/n), or arbitrary values (a loaded profile)
        let witnessed = rng.chance(3, 4);
        let prior: Vec<(f32, f32)> = (0..n)
            .map(|_| if witnessed { (0.0, 1.0 / n as f32) } else { ((rng.unit() * 100.0 - 50.0) as f32, rng.unit() as f32) })
            .collect();
        let style = force_style.unwrap_or_else(|| rng.below(8));
        let dist = rng.chance(3, 4); // per-epoch strategies are distributions (else arbitrary non-negative weights)
        let mut rs: Vec<Vec<f32>> = vec![];
        let mut ps: Vec<Vec<f32>> = vec![];
        for _ in 0..len {
            rs.push((0..n).map(|_| regret_value(rng, style)).collect());
            let mut p: Vec<f32> = (0..n).map(|_| if rng.chance(1, 6) { 0.0 } else { rng.unit() as f32 }).collect();
            if dist {
                if p.iter().all(|x| *x == 0.0) {
                    p[0] = 1.0;
                }
                let s: f32 = p.iter().sum();
                p.iter_mut().for_each(|x| *x /= s);
            }
            ps.push(p);
        }

        Spec { case: format!("{label} {case}"), n, len, start, edges, bucket, witnessed, prior, style, dist, rs, ps, save: false }
}

/// the real code: Profile::add_regret, add_policy, next, walker, weight
fn simulate(spec: &Spec) -> Outcome {
    let Spec { len, start, edges, bucket, prior, rs, ps, .. } = spec;
    let (len, start) = (*len, *start);
        let mut profile = Profile::default();
        let fresh_walker = walker_of(&profile);
        let fresh_epochs = profile.epochs();
        for (e, (r, p)) in edges.iter().zip(prior.iter()) {
            profile.verif_set_memory(bucket, e, *r, *p);
        }
        profile.verif_set_epochs(start);
        let mut walkers = vec![walker_of(&profile)];
        let mut counters = vec![profile.epochs()];
        let ok = catch(AssertUnwindSafe(|| {
            for s in 0..len {
                let rmap: BTreeMap<Edge, f32> = edges.iter().cloned().zip(rs[s].iter().cloned()).collect();
                let pmap: BTreeMap<Edge, f32> = edges.iter().cloned().zip(ps[s].iter().cloned()).collect();
                profile.add_regret(bucket, &Regret::from(rmap));
                profile.add_policy(bucket, &Policy::from(pmap));
                counters.push(profile.next());
                walkers.push(walker_of(&profile));
            }
        }));
    if ok.is_none() {
        return Outcome { ok: false, fresh_walker, fresh_epochs, walkers, counters, stored: vec![], weights: vec![], via_policy: vec![], via_file: None, epochs: 0, walker: String::new() };
    }
    let stored: Vec<(f32, f32)> = edges.iter().map(|e| profile.verif_memory(bucket, e).expect("stored")).collect();
    let weights: Vec<f32> = edges.iter().map(|e| profile.weight(bucket, e)).collect();
    let read = profile.policy(bucket);
    let via_policy: Vec<f32> = edges.iter().map(|e| read.inner().get(e).copied().unwrap_or(f32::NAN)).collect();
    let via_file = if spec.save {
        use robopoker::save::upload::Table;
        std::fs::create_dir_all("pgcopy").expect("pgcopy dir");
        profile.save();
        let bytes = std::fs::read(Profile::path(robopoker::cards::street::Street::Pref)).expect("saved blueprint");
        // 19-byte header, 66-byte rows (u16 count, 4 x (u32 len, u64), 2 x (u32 len, f32)), rows in key order
        Some((0..edges.len()).map(|k| {
            let o = 19 + 66 * k;
            let f = |i: usize| f32::from_be_bytes(bytes[o + i..o + i + 4].try_into().unwrap());
            (f(54), f(62))
        }).collect())
    } else {
        None
    };
    Outcome { ok: true, fresh_walker, fresh_epochs, walkers, counters, stored, weights, via_policy, via_file, epochs: profile.epochs(), walker: walker_of(&profile) }
}

/// correspondence line + search oracle (f64 closed forms) for one sequence
fn judge(run: &mut Run, spec: &Spec, out: &Outcome) {
    let Spec { case, n, len, start, prior, style, dist, rs, ps, witnessed, .. } = spec;
    let (n, len, start, style, dist, witnessed) = (*n, *len, *start, *style, *dist, *witnessed);
    let Outcome { fresh_walker, fresh_epochs, walkers, counters, stored, weights, .. } = out;
    let fresh_epochs = *fresh_epochs;
        run.evaluations += 1;
        let mut op = format!("seq {start} {n} {len}");
        for (r, p) in prior.iter() {
            op.push_str(&format!(" {} {}", r.to_bits(), p.to_bits()));
        }
        for s in 0..len {
            for i in 0..n {
                op.push_str(&format!(" {} {}", rs[s][i].to_bits(), ps[s][i].to_bits()));
            }
        }
        let what = format!("seq {case}: start {start}, {n} actions, {len} epochs, regret style {style}, {} priors, {} strategies",
            if witnessed { "witnessed" } else { "loaded" }, if dist { "normalised" } else { "unnormalised" });
        if !out.ok {
            run.line(&op, "panic");
            run.fail("accumulation-panics", &what, "no abort", "panic");
            return;
        }
        let mut ans = format!("{} {}", out.epochs, out.walker);
        for i in 0..n {
            ans.push_str(&format!(" {} {} {} {}", tok(stored[i].0), tok(stored[i].1), tok(weights[i]), tok(out.via_policy[i])));
        }
        // every public read path must show the same stored average strategy
        run.spec_checked += 1;
        let total: f64 = out.via_policy.iter().map(|x| *x as f64).sum();
        for i in 0..n {
            let raw_ok = out.via_policy[i].to_bits() == stored[i].1.to_bits();
            let norm = out.via_policy[i] as f64 / total;
            let norm_ok = (norm - weights[i] as f64).abs() <= 1e-5 * norm.abs() + 1e-7 || !(weights[i].is_finite());
            if !(raw_ok && norm_ok) {
                run.fail("average-strategy-read-path-disagrees", &format!("{what}, action {i}"),
                    &format!("Profile::policy = stored {:e}, normalised = Profile::weight {:e}", stored[i].1, weights[i]),
                    &format!("Profile::policy gives {:e}, normalised {norm:e}", out.via_policy[i]));
                break;
            }
        }
        if let Some(rows) = &out.via_file {
            run.spec_checked += 1;
            run.count("read back through Profile::save");
            for i in 0..n {
                if rows[i].0.to_bits() != stored[i].0.to_bits() || rows[i].1.to_bits() != stored[i].1.to_bits() {
                    run.fail("average-strategy-read-path-disagrees", &format!("{what}, action {i}, saved file"), &format!("{:?}", stored[i]), &format!("{:?}", rows[i]));
                    break;
                }
            }
        }
        run.line(&op, &ans);
        run.distinct(&op);
        run.count(match len { 1..=4 => "len=1..4", 5..=40 => "len=5..40", 41..=389 => "len=41..389", 390..=1999 => "len=390..1999", _ => "len=2000" });
        run.count(&format!("actions={n}"));
        run.count(if start == 0 { "start=0" } else if start < CFR_DISCOUNT_PHASE { "start<discount-phase" } else { "start>=discount-phase" });
        run.count(&format!("regret-style={style}"));

        // ---- search oracle (f64 closed forms)
        run.spec_checked += 1;
        // traversers alternate, starting with player 0 on a fresh profile
        if fresh_walker.as_str() != "0" || fresh_epochs != 0 {
            run.fail("fresh-profile-not-player-0", &what, "epoch 0, walker 0", &format!("epoch {fresh_epochs}, walker {fresh_walker}"));
        }
        for s in 0..=len {
            if counters[s] != start + s || walkers[s] != ((start + s) % 2).to_string() {
                run.fail("walker-does-not-alternate", &format!("{what}, after {s} epochs"), &format!("counter {} walker {}", start + s, (start + s) % 2), &format!("counter {} walker {}", counters[s], walkers[s]));
                break;
            }
        }
        let tt = (start + len) as f64; // T + 1 when start = 0
        for i in 0..n {
            // average strategy: sum_s p_s ((start+s+1)/(start+len))^gamma  (+ prior (start/(start+len))^gamma)
            let mut want = prior[i].1 as f64 * (start as f64 / tt).powf(GAMMA);
            let mut mag = want.abs();
            for s in 0..len {
                let term = ps[s][i] as f64 * ((start + s + 1) as f64 / tt).powf(GAMMA);
                want += term;
                mag += term.abs();
            }
            let got = stored[i].1 as f64;
            if (got - want).abs() > 1e-4 * mag + 1e-30 {
                run.fail("policy-not-polynomially-weighted-sum", &format!("{what}, action {i}"), &format!("{want:e}"), &format!("{got:e}"));
                break;
            }
        }
        // normalised: the (s+1)^gamma-weighted mean of the per-epoch strategies
        if start == 0 && dist {
            let z: f64 = (0..len).map(|s| ((s + 1) as f64).powf(GAMMA)).sum();
            for i in 0..n {
                let want: f64 = (0..len).map(|s| ((s + 1) as f64).powf(GAMMA) * ps[s][i] as f64).sum::<f64>() / z;
                let got = weights[i] as f64;
                if (got - want).abs() > 1e-4 * want + 1e-6 {
                    run.fail("average-strategy-not-weighted-mean", &format!("{what}, action {i}"), &format!("{want:e}"), &format!("{got:e}"));
                    break;
                }
            }
        }
        // regret: sum_s r_s w_s, w_s = prod_{u>s} d_u (the range and monotonicity of the single
        // factors the code applies is observed below, counter by counter)
        for i in 0..n {
            let mut w = vec![1.0f64; len + 1]; // w[s+1] for the vector of epoch s; w[0] for the prior
            for s in (0..len).rev() {
                w[s] = w[s + 1] * d_spec(start + s, rs[s][i] as f64);
            }
            let mut want = prior[i].0 as f64 * w[0];
            let mut mag = want.abs();
            for s in 0..len {
                let term = rs[s][i] as f64 * w[s + 1];
                want += term;
                mag += term.abs();
            }
            let got = stored[i].0 as f64;
            if (got - want).abs() > 1e-4 * mag + 1e-30 {
                run.fail("regret-not-discounted-sum", &format!("{what}, action {i}"), &format!("{want:e}"), &format!("{got:e}"));
                break;
            }
        }
}

fn main() {
    let a = args();
    let mut rng = Rng::new(a.seed);
    let mut run = Run::new(&a.out);
    quiet_panics();
    let nseq = if a.thorough() { 8000 } else { 260 };

    // ---- single factors, phases, walker, next
    let d = Discount::default();
    let mut ts: Vec<usize> = (0..=(CFR_DISCOUNT_PHASE + 20)).collect();
    ts.extend((CFR_PRUNNING_PHASE - 3)..(CFR_PRUNNING_PHASE + 3));
    for _ in 0..400 {
        let width = 1 + rng.below(40);
        ts.push(rng.below(1u64 << width) as usize);
    }
    let mut profile = Profile::default();
    let bucket = Bucket::from((Path::from(7u64), Abstraction::from(3u64), Path::from(9u64)));
    for &t in &ts {
        run.evaluations += 1;
        run.spec_checked += 1;
        let dp = d.policy(t);
        run.line(&format!("dpolicy {t}"), &tok(dp));
        let want = (t as f64 / (t as f64 + 1.0)).powf(GAMMA);
        if (dp as f64 - want).abs() > 1e-6 {
            run.fail("policy-discount-not-(t/(t+1))^gamma", &format!("t = {t}"), &format!("{want:e}"), &format!("{dp:e}"));
        }
        for r in [1.0f32, -1.0, 0.0, 123.5, -0.001] {
            // the factor actually applied by Profile::add_regret: observe it on a stored 1.0
            profile.verif_set_memory(&bucket, &Edge::Call, 1.0, 1.0);
            profile.verif_set_epochs(t);
            let one: BTreeMap<Edge, f32> = [(Edge::Call, r)].into_iter().collect();
            profile.add_regret(&bucket, &Regret::from(one));
            let after = profile.verif_memory(&bucket, &Edge::Call).unwrap().0;
            let phase_factor = match Phase::from(t) {
                Phase::Discount => d.regret(t, r),
                _ => 1.0,
            };
            run.line(&format!("dregret {t} {}", r.to_bits()), &tok(phase_factor));
            let want = d_spec(t, r as f64);
            if (phase_factor as f64 - want).abs() > 1e-6 || ((after - r) as f64 - want).abs() > 1e-4 {
                run.fail("regret-discount-differs-from-spec", &format!("t = {t}, added regret {r}"), &format!("{want:e}"), &format!("factor {phase_factor:e}, observed {:e}", after - r));
            }
            if t >= 1 && !(phase_factor > 0.0 && phase_factor <= 1.0) {
                run.fail("regret-weight-outside-spec", &format!("t = {t}, added regret {r}"), "(0,1]", &format!("{phase_factor:e}"));
            }
        }
        let ph = match Phase::from(t) {
            Phase::Discount => 0,
            Phase::Explore => 1,
            Phase::Prune => 2,
        };
        run.line(&format!("phase {t}"), &ph.to_string());
        let want_ph = if t < CFR_DISCOUNT_PHASE { 0 } else if t < CFR_PRUNNING_PHASE { 1 } else { 2 };
        if ph != want_ph {
            run.fail("phase-boundary", &format!("t = {t}"), &want_ph.to_string(), &ph.to_string());
        }
        profile.verif_set_epochs(t);
        run.line(&format!("walker {t}"), &walker_of(&profile));
        let nx = profile.next();
        run.line(&format!("next {t}"), &nx.to_string());
        if nx != t + 1 || walker_of(&profile) != ((t + 1) % 2).to_string() {
            run.fail("walker-does-not-alternate", &format!("next at {t}"), &format!("{} walker {}", t + 1, (t + 1) % 2), &format!("{nx} walker {}", walker_of(&profile)));
        }
    }

    for case in 0..nseq {
        // every fourth sequence is long and one-sided so that accumulated values cross +-REGRET_MIN
        let (fl, fs) = if case % 4 == 3 { (Some(1300 + rng.below(701) as usize), Some(6 + rng.below(2))) } else { (None, None) };
        let mut spec = make_spec(&mut rng, case, "case", fl, fs);
        spec.save = case < 40 || case % 16 == 0;
        let out = simulate(&spec);
        judge(&mut run, &spec, &out);
    }

    // ---- several independent Profiles trained CONCURRENTLY on different threads at different
    //      counters (short beside long, different starting counters); each one must still follow
    //      the model and the closed forms
    {
        let threads = 8usize;
        let per = if a.thorough() { 400 } else { 24 };
        let mut specs: Vec<Vec<Spec>> = vec![];
        for th in 0..threads {
            let mut r = rng.fork();
            specs.push((0..per).map(|k| {
                let len = if th % 2 == 0 { Some(1500 + r.below(501) as usize) } else { Some(1 + r.below(60) as usize) };
                make_spec(&mut r, k, &format!("concurrent thread {th} of {threads}, case"), len, None)
            }).collect());
        }
        let barrier = std::sync::Barrier::new(threads);
        let outs: Vec<Vec<Outcome>> = std::thread::scope(|sc| {
            let hs: Vec<_> = specs.iter().map(|mine| {
                let barrier = &barrier;
                sc.spawn(move || {
                    barrier.wait();
                    // the short-sequence threads repeat their work to stay busy beside the long ones
                    mine.iter().map(|sp| {
                        let mut o = simulate(sp);
                        if sp.len < 100 {
                            for _ in 0..20 {
                                let again = simulate(sp);
                                if !again.ok || again.stored.iter().zip(o.stored.iter()).any(|(x, y)| x.0.to_bits() != y.0.to_bits() || x.1.to_bits() != y.1.to_bits()) {
                                    o = again; // keep a deviating repetition: the judge will name it
                                    break;
                                }
                            }
                        }
                        o
                    }).collect::<Vec<_>>()
                })
            }).collect();
            hs.into_iter().map(|h| h.join().expect("worker")).collect()
        });
        for (mine, res) in specs.iter().zip(outs.iter()) {
            for (sp, o) in mine.iter().zip(res.iter()) {
                judge(&mut run, sp, o);
                run.count("concurrent-sequence");
            }
        }
    }

    // ---- observation (outside the quantifier): what a resumed profile does at its first visit.
    //      `Profile::load` resets the counter to 0; the first add_policy multiplies the loaded
    //      average strategy by (0/1)^gamma = 0, the first non-zero add_regret the loaded regret by 0.
    {
        let mut p = Profile::default();
        let b = Bucket::from((Path::from(11u64), Abstraction::from(5u64), Path::from(13u64)));
        p.verif_set_memory(&b, &Edge::Fold, 40.0, 0.9);
        p.verif_set_memory(&b, &Edge::Call, -7.0, 0.1);
        p.verif_set_epochs(0);
        let r: BTreeMap<Edge, f32> = [(Edge::Fold, 1.0), (Edge::Call, 0.0)].into_iter().collect();
        let q: BTreeMap<Edge, f32> = [(Edge::Fold, 0.5), (Edge::Call, 0.5)].into_iter().collect();
        p.add_regret(&b, &Regret::from(r));
        p.add_policy(&b, &Policy::from(q));
        let f = p.verif_memory(&b, &Edge::Fold).unwrap();
        let c = p.verif_memory(&b, &Edge::Call).unwrap();
        run.notes.push(format!(
            "resume observation (real code, counter 0 as after Profile::load): stored (regret, policy) Fold (40, 0.9), Call (-7, 0.1); \
             after add_regret {{Fold: 1, Call: 0}} + add_policy {{0.5, 0.5}}: Fold ({}, {}), Call ({}, {}) — the loaded average strategy and the \
             loaded regret of an action with a non-zero new regret are multiplied by 0 (closed form with t0 = 0)", f.0, f.1, c.0, c.1));
        run.spec_checked += 1;
        if !(f == (1.0, 0.5) && c == (-7.0, 0.5)) {
            run.fail("resume-first-visit-differs-from-closed-form", "loaded (40,0.9),(-7,0.1) at counter 0", "Fold (1, 0.5), Call (-7, 0.5)", &format!("Fold {f:?}, Call {c:?}"));
        }
    }

    run.rule = format!(
        "{nseq} sequences at one information set: 1-5 actions, length in {{1..4, 1..40, 2000, around the discount-phase boundary {CFR_DISCOUNT_PHASE}, 1..2000}}, \
         counter starting at 0 (6/10) or 1..3 / around the discount boundary / around the pruning boundary / <5000, priors as stored by witness (3/4) or arbitrary as after load, \
         8 regret styles (uniform +-100, sparse +-1e4 with zeros, half-integers with zeros, all negative down to the clamp, all positive, +- over 29 binary orders of magnitude, one-sided -250..-400 and +250..+400; every fourth sequence is one-sided with 1300-2000 epochs so that accumulated regret crosses -+3e5), \
         per-epoch strategies normalised (3/4) or arbitrary non-negative with zeros; every epoch = real add_regret + add_policy + next; final stored regret, policy, weight(), Profile::policy() (and the saved file for some), counter, walker compared, all read paths required to agree; \
         plus 8 threads training independent profiles concurrently (long 1500-2000-epoch sequences beside repeated short ones, different counters), each judged like the others; plus Discount::policy, the regret factor seen through add_regret for 5 regret signs, Phase::from, walker, next at {} counters. A sequence is non-trivial when it has >= 1 epoch (all); distinct by the full op line",
        ts.len()
    );
    run.finish();
}
