// C18 — every (small files) / every row-boundary + sampled (large files) prefix of files written by
// the real Table::save of Profile, Metric, Lookup and Decomp is put in place of the file and given
// to the real Table::load under catch_unwind, vs the Lean model (`RP.Pgcopy.load*` on `take k`).
// Search oracle (from the property statement): a strict prefix either makes load fail (panic) or
// yields exactly the complete content; it never yields a table with rows missing.  The complete
// file must load to the complete content.
#[path = "../c17_shared.rs"]
mod shared;
use robopoker::cards::isomorphism::Isomorphism;
use robopoker::cards::street::Street;
use robopoker::clustering::abstraction::Abstraction;
use robopoker::clustering::histogram::Histogram;
use robopoker::clustering::lookup::Lookup;
use robopoker::clustering::transitions::Decomp;
use robopoker::cards::hand::Hand;
use robopoker::cards::hole::Hole;
use robopoker::cards::card::Card;
use robopoker::cards::observation::Observation;
use robopoker::gameplay::action::Action;
use robopoker::gameplay::game::Game;
use robopoker::mccfr::blueprint::Blueprint;
use robopoker::mccfr::encoder::Encoder;
use robopoker::mccfr::bucket::Bucket;
use robopoker::mccfr::edge::Edge;
use robopoker::save::upload::Table;
use rpharness::*;
use shared::*;
use std::collections::BTreeMap;

struct Ctx {
    run: Run,
    scr: Scratch,
    rng: Rng,
    deep: bool,
    /// an 8128-entry metric file (Metric::save names it metric.flop), used as a longer decoy
    metric_flop: Vec<u8>,
    /// files of 1 MiB and more: a fixed set of cuts judged by the oracle only (no model line)
    huge: bool,
    /// files past 16 MiB: a handful of cuts past the 16 MiB mark, made by truncating the file in
    /// place in descending order (implies `huge`)
    giant: bool,
}

/// cuts for a file of more than 16 MiB, all but the last group past the 16 MiB mark, DESCENDING:
/// complete file, inside the trailer, trailer missing, last row, and around the first two row
/// boundaries past the mark: boundary -1 / +0 / +1 / +2 and mid-row; one boundary +2 below the mark
fn giant_cuts(len: usize, row: usize) -> Vec<usize> {
    let nrows = (len - 21) / row;
    let mark = 16usize << 20;
    let first = (mark - 19 + row - 1) / row;
    let mut ks = vec![len, len - 1, len - 2, len - 2 - row, len - 2 - row + 2, len - 2 - row / 2];
    for j in [first + 1000, first + 1, first] {
        if j < nrows {
            let b = 19 + j * row;
            ks.extend([b + row / 2, b + 2, b + 1, b, b - 1]);
        }
    }
    let below = 19 + (first / 2) * row;
    ks.extend([below + 2, below]);
    ks.retain(|k| *k <= len);
    ks.sort();
    ks.dedup();
    ks.reverse();
    ks
}

/// cuts for a file of at least 1 MiB: header, the first rows past every MiB mark (the file is still
/// >= that size after the cut), middle, 2^16 rows, the last rows, the trailer; each row boundary with
/// one byte before / after; plus a few random ones
fn huge_cuts(c: &mut Ctx, len: usize, row: usize) -> Vec<usize> {
    let nrows = (len - 21) / row;
    let mut ks: Vec<usize> = vec![0, 1, 10, 18, 19, 20, 21];
    let mut marks: Vec<usize> = vec![];
    let mib = 1usize << 20;
    let mut m = mib;
    while m < len {
        let first = (m - 19 + row - 1) / row; // first row boundary at or past the mark
        marks.extend([first.saturating_sub(1), first, first + 1, first + 2, first + 100]);
        m += mib;
    }
    marks.extend([nrows / 2, (nrows / 2).saturating_sub(1), 65536, 65537, nrows.saturating_sub(2), nrows.saturating_sub(1), nrows]);
    for _ in 0..(if c.deep { 40 } else { 8 }) {
        marks.push(c.rng.below(nrows as u64 + 1) as usize);
    }
    for j in marks {
        if j <= nrows {
            let b = 19 + j * row;
            ks.extend([b.saturating_sub(1), b, b + 1, b + 2]);
        }
    }
    for _ in 0..(if c.deep { 40 } else { 8 }) {
        ks.push(c.rng.below(len as u64) as usize);
    }
    ks.extend([len - 3, len - 2, len - 1, len]);
    ks.retain(|k| *k <= len);
    ks.sort();
    ks.dedup();
    ks
}

/// prefix lengths to try for a file of `len` bytes with rows of `row` bytes after a 19-byte header:
/// `.0` = every cut given to the real loader and judged by the oracle, `.1` = the subset also sent
/// to the Lean model (all of them unless the file is large)
fn cuts(c: &mut Ctx, len: usize, row: usize) -> (Vec<usize>, Vec<usize>) {
    if c.giant {
        return (giant_cuts(len, row), vec![]);
    }
    if c.huge {
        return (huge_cuts(c, len, row), vec![]);
    }
    let mut ks: Vec<usize> = vec![];
    if len <= 420 {
        ks.extend(0..=len);
        return (ks.clone(), ks);
    }
    let mut must: Vec<usize> = vec![]; // always sent to the model too
    must.extend(0..=40.min(len));
    let nrows = (len - 21) / row;
    for j in 0..=nrows {
        ks.push(19 + j * row); // row boundaries: the cuts the pinned loaders did not notice
        // block-size multiples: loaders that read rows in blocks of 2^i rows
        if j % 256 == 0 || (j.is_power_of_two() && j >= 16) {
            must.extend([19 + j * row, (19 + j * row + 1).min(len), (19 + j * row).saturating_sub(1)]);
        }
    }
    // I/O buffer multiples (8 KiB BufReader default, 64 KiB, 1 MiB): the cut right before / at / after
    for b in [8192usize, 65536, 1 << 20] {
        let mut m = b;
        while m <= len + 2 {
            for d in [-2i64, -1, 0, 1, 2] {
                let k = m as i64 + d;
                if k >= 0 && (k as usize) <= len {
                    must.push(k as usize);
                }
            }
            m += b;
        }
    }
    let extra = if c.deep { 2000 } else { 250 };
    for _ in 0..extra {
        let j = c.rng.below(nrows as u64 + 1) as usize;
        let off = match c.rng.below(4) {
            0 => 1,
            1 => 2,
            2 => row - 1,
            _ => c.rng.below(row as u64) as usize,
        };
        ks.push((19 + j * row + off).min(len));
    }
    must.extend(len.saturating_sub(80)..=len);
    ks.extend(must.iter().copied());
    ks.sort();
    ks.dedup();
    // the model evaluates each prefix from scratch (quadratic map insertion): sample for large files
    let budget = if c.deep { 1500 } else { 500 };
    let mut model: Vec<usize> = if ks.len() <= budget {
        ks.clone()
    } else {
        let mut m = must.clone();
        for _ in 0..budget / 2 {
            m.push(ks[c.rng.below(ks.len() as u64) as usize]);
        }
        m
    };
    model.sort();
    model.dedup();
    (ks, model)
}

/// run all cuts of one saved file; `load` returns Some(Some(n)) = loaded, content differs, n rows;
/// Some(None) = loaded and equal to the complete content; None = panic
fn run_cuts(
    c: &mut Ctx, table: &str, aux: u64, rows: &[Vec<u64>], name: &str, full: &[u8], rowsize: usize,
    load: &mut dyn FnMut() -> Option<Option<usize>>, river: bool, decoy: &mut dyn FnMut(usize) -> bool,
) {
    let (ks, model_ks) = cuts(c, full.len(), rowsize);
    let in_model: std::collections::HashSet<usize> = model_ks.iter().copied().collect();
    let op = if c.huge { String::new() } else { format!("cuts {table} {aux} {} {} {} {}", rows.len(), flat(rows), model_ks.len(), model_ks.iter().map(|k| k.to_string()).collect::<Vec<_>>().join(" ")) };
    let mut ans: Vec<String> = Vec::with_capacity(model_ks.len());
    let boundary = |k: usize| k >= 19 && k < full.len() - 1 && (k - 19) % rowsize == 0;
    let every = if full.len() <= 420 { 1 } else { 16 };
    let full_id = if c.huge { fnv(full) } else { 0 };
    let mut on_disk: Option<usize> = None; // giant mode: length of the intact prefix currently on disk
    for (i, &k) in ks.iter().enumerate() {
        // ambient state: this thread has just loaded a different, LONGER file of the same kind
        // (alternately under the same name and under another street's name)
        if i % every == 0 && !c.giant {
            if decoy(i / every) {
                c.run.count(&format!("{table} preceded by a load of a longer {} file", if (i / every) % 2 == 0 { "same-name" } else { "other-street (blueprint: same-name)" }));
            } else {
                c.run.fail("decoy-does-not-load", table, "a complete longer file loads", "panic");
            }
        }
        if c.giant && on_disk.map(|n| n >= k).unwrap_or(false) {
            // shorten the file in place instead of writing 17 MiB again
            let f = std::fs::OpenOptions::new().write(true).open(c.scr.dir.join("pgcopy").join(name)).expect("open for truncation");
            f.set_len(k as u64).expect("truncate");
        } else {
            c.scr.write(name, &full[..k]);
        }
        on_disk = Some(k);
        c.run.evaluations += 1;
        c.run.spec_checked += 1;
        let r = load();
        if r.is_some() {
            on_disk = None; // a loader that succeeded may have been followed by a re-save (transitions)
        }
        let tok = match r {
            None => "fail".to_string(),
            Some(None) => "ok".to_string(),
            Some(Some(n)) => format!("short:{n}"),
        };
        let cls = if k == full.len() { "cut=none(complete file)" } else if k < 19 { "cut=in-header" } else if boundary(k) { "cut=row-boundary" } else if k >= full.len() - 2 { "cut=in-trailer" } else { "cut=inside-row" };
        c.run.count(&format!("{table} {cls} -> {}", if tok.starts_with("short") { "short" } else { &tok }));
        let short_op = format!("{table} file of {} bytes ({} rows) cut to {k} bytes", full.len(), rows.len());
        if k < full.len() {
            if let Some(Some(n)) = r {
                c.run.fail("truncated-file-loads-short", &short_op, "load fails, or returns the complete content", &format!("load succeeded with {n} rows"));
            }
        } else if !river {
            if tok != "ok" {
                c.run.fail("complete-file-does-not-load", &short_op, "the complete content", &tok);
            }
        }
        if c.huge {
            c.run.distinct(&(table, rows.len(), full.len(), k, full_id));
            c.run.count(&format!("HUGE {table} file of {} MiB: {cls}{} -> {}", full.len() >> 20, if k >= (16 << 20) && k < full.len() { " (>= 16 MiB left)" } else if k >= (1 << 20) && k < full.len() { " (>= 1 MiB left)" } else { "" }, if tok.starts_with("short") { "short" } else { &tok }));
        } else if !rows.is_empty() {
            c.run.distinct(&(table, rows, k));
        }
        if in_model.contains(&k) {
            ans.push(tok);
        }
    }
    c.run.count_n(&format!("{table} cuts judged by the oracle"), ks.len() as u64);
    c.run.count_n(&format!("{table} cuts also sent to the model"), model_ks.len() as u64);
    if c.huge {
        c.run.count_n(&format!("{table} cuts of files >= 1 MiB judged by the oracle only (no model line)"), ks.len() as u64);
    } else {
        c.run.line(&op, &ans.join(" "));
    }
}

fn profile_case(c: &mut Ctx, rows: &[(Bucket, Edge, u32, u32)]) {
    let p = build_profile(rows);
    let orig = profile_rows(&p);
    let typed = profile_typed(&p);
    c.scr.clean();
    p.save();
    let files = c.scr.files();
    assert!(files.len() == 1 && files[0].0 == "blueprint", "blueprint file");
    let full = files[0].1.clone();
    // a different, longer blueprint
    let extra = any_profile_rows(&mut c.rng, if c.giant { 1 } else { orig.len() + 9 });
    build_profile(&extra).save();
    let dbytes = std::fs::read("pgcopy/blueprint").expect("decoy");
    let mut decoy = |_: usize| {
        std::fs::write("pgcopy/blueprint", &dbytes).expect("decoy");
        catch(|| profile_load()).is_some()
    };
    let mut load = || catch(|| profile_load()).map(|l| { let t = profile_typed(&l); if t == typed { None } else { Some(t.len()) } });
    run_cuts(c, "blueprint", 0, &orig, "blueprint", &full, 66, &mut load, false, &mut decoy);
}
fn metric_case(c: &mut Ctx, rows: &[(u64, u32)]) {
    let m = build_metric(rows);
    let orig = metric_rows(&m);
    let typed = metric_typed(&m);
    c.scr.clean();
    m.save();
    let files = c.scr.files();
    assert!(files.len() == 1, "metric file");
    let name = files[0].0.clone();
    let street = name.strip_prefix("metric.").and_then(street_of_suffix).expect("metric street");
    let full = files[0].1.clone();
    // a different, longer metric under the same name, and the 8128-entry one (= metric.flop)
    let n = if c.giant { 1 } else { orig.len() + 9 };
    let same: Vec<(u64, u32)> = {
        let mut m = BTreeMap::new();
        while m.len() < n || [8128usize, 10296, 14196].contains(&m.len()) {
            m.insert(c.rng.next(), any_f32(&mut c.rng));
        }
        m.into_iter().collect()
    };
    c.scr.clean();
    build_metric(&same).save();
    let same_name = c.scr.files()[0].0.clone();
    let same_street = same_name.strip_prefix("metric.").and_then(street_of_suffix).expect("street");
    let same_bytes = c.scr.files()[0].1.clone();
    let flop_bytes: Vec<u8> = c.metric_flop.clone();
    c.scr.clean();
    let use_flop = street != Street::Flop && full.len() < flop_bytes.len();
    let mut decoy = |i: usize| {
        if i % 2 == 1 && use_flop {
            std::fs::write("pgcopy/metric.flop", &flop_bytes).expect("decoy");
            catch(|| metric_load(Street::Flop)).is_some()
        } else {
            std::fs::write(format!("pgcopy/{same_name}"), &same_bytes).expect("decoy");
            catch(move || metric_load(same_street)).is_some()
        }
    };
    let mut load = || catch(move || metric_load(street)).map(|l| { let t = metric_typed(&l); if t == typed { None } else { Some(t.len()) } });
    run_cuts(c, "metric", 0, &orig, &name, &full, 22, &mut load, false, &mut decoy);
}
fn lookup_case(c: &mut Ctx, map: &BTreeMap<Isomorphism, Abstraction>) {
    let orig = lookup_rows(map);
    c.scr.clean();
    Lookup::from(map.clone()).save();
    let files = c.scr.files();
    assert!(files.len() == 1, "lookup file");
    let name = files[0].0.clone();
    let street = name.strip_prefix("isomorphism.").and_then(street_of_suffix).expect("lookup street");
    let full = files[0].1.clone();
    // different, longer lookups: same street, and another street (the order Layer::learn uses: turn, then flop)
    let other = match street {
        Street::Flop => Street::Turn,
        Street::Turn => Street::Rive,
        Street::Rive => Street::Turn,
        Street::Pref => Street::Flop,
    };
    let mut dec: Vec<(Street, String, Vec<u8>)> = vec![];
    for s in [if street == Street::Pref { Street::Flop } else { street }, other] {
        let mut m = BTreeMap::new();
        while m.len() < (if c.giant { 1 } else { orig.len() + 9 }) {
            m.insert(any_isomorphism(&mut c.rng, s), any_abstraction(&mut c.rng, None));
        }
        c.scr.clean();
        Lookup::from(m).save();
        let f = c.scr.files();
        dec.push((s, f[0].0.clone(), f[0].1.clone()));
    }
    c.scr.clean();
    let mut decoy = |i: usize| {
        let (s, n, b) = &dec[i % 2];
        let s = *s;
        std::fs::write(format!("pgcopy/{n}"), b).expect("decoy");
        catch(move || lookup_load(s)).is_some()
    };
    let mut load = || catch(move || BTreeMap::from(lookup_load(street))).map(|l| if &l == map { None } else { Some(l.len()) });
    run_cuts(c, "lookup", 0, &orig, &name, &full, 26, &mut load, false, &mut decoy);
}
/// Decomp has no read accessor: what a load delivered is observed by saving it again
fn decomp_case(c: &mut Ctx, map: BTreeMap<Abstraction, Histogram>) {
    let orig = decomp_rows(&map);
    c.scr.clean();
    Decomp::from(map).save();
    let files = c.scr.files();
    assert!(files.len() == 1, "transitions file");
    let name = files[0].0.clone();
    let street = name.strip_prefix("transitions.").and_then(street_of_suffix).expect("transitions street");
    let river = street == Street::Rive;
    let mass = if river { 0 } else { street.n_children() as u64 };
    let full = files[0].1.clone();
    // the complete content as a complete load delivers it
    let path = format!("pgcopy/{name}");
    c.scr.write(&name, &full);
    let complete: Option<Vec<u8>> = catch(|| decomp_load(street)).map(|d| {
        d.save();
        std::fs::read(&path).expect("resaved")
    });
    if complete.is_none() && !river {
        c.run.fail("complete-file-does-not-load", &format!("transitions {} rows", orig.len()), "the complete content", "panic");
    }
    let mut load = || {
        catch(|| decomp_load(street)).map(|d| {
            d.save();
            let again = std::fs::read(&path).expect("resaved");
            if Some(&again) == complete.as_ref() { None } else { Some((again.len().saturating_sub(21)) / 34) }
        })
    };
    // different, longer transition tables: same street and another street
    let mut dec: Vec<(Street, String, Vec<u8>)> = vec![];
    let s0 = if river { Street::Turn } else { street };
    let s1 = if s0 == Street::Flop { Street::Turn } else { Street::Flop };
    for s in [s0, s1] {
        let m = if c.giant { many_decomp(&mut c.rng, s, 1) } else if c.huge { many_decomp(&mut c.rng, s, orig.len() + 9) } else { any_decomp(&mut c.rng, s, orig.len() + 9, 64) };
        std::fs::remove_file(format!("pgcopy/transitions.{s}")).ok();
        Decomp::from(m).save();
        let n = format!("transitions.{s}");
        let b = std::fs::read(format!("pgcopy/{n}")).expect("decoy");
        dec.push((s, n, b));
    }
    let mut decoy = |i: usize| {
        let (s, n, b) = &dec[i % 2];
        let s = *s;
        std::fs::write(format!("pgcopy/{n}"), b).expect("decoy");
        catch(move || decomp_load(s)).is_some()
    };
    run_cuts(c, "transitions", mass, &orig, &name, &full, 34, &mut load, river, &mut decoy);
}

// ------------------------------------------------------------------ composite loaders

/// a game whose acting player sees exactly `obs` (pocket + board), reached by passive play and
/// chosen deals; used only to ask an `Encoder` for the abstraction of one isomorphism
fn game_at(obs: &Observation) -> Option<Game> {
    let pocket = u64::from(*obs.pocket());
    let public = u64::from(*obs.public());
    let full = u64::from(Hand::from(Hand::mask()));
    let free = full & !(pocket | public);
    let a = free & free.wrapping_neg();
    let b = (free & !a) & (free & !a).wrapping_neg();
    let other = a | b;
    let board: Vec<Card> = Vec::<Card>::from(Hand::from(public));
    let mut deals: Vec<Hand> = vec![];
    if board.len() >= 3 {
        deals.push(Hand::from(board[0..3].to_vec()));
    }
    for c in board.iter().skip(3) {
        deals.push(Hand::from(vec![*c]));
    }
    for order in [[pocket, other], [other, pocket]] {
        let built = catch(|| {
            let mut g = Game::root().verif_with_holes(&[Hole::from(Hand::from(order[0])), Hole::from(Hand::from(order[1]))]);
            for d in &deals {
                for _ in 0..8 {
                    let legal = g.legal();
                    if legal.iter().any(|x| matches!(x, Action::Draw(_))) {
                        break;
                    }
                    let act = legal.iter().find(|x| matches!(x, Action::Call(_))).or(legal.iter().find(|x| matches!(x, Action::Check))).copied()?;
                    g = g.apply(act);
                }
                g = g.apply(Action::Draw(*d));
            }
            Some(g)
        });
        if let Some(Some(g)) = built {
            if catch(|| g.sweat()) == Some(*obs) {
                return Some(g);
            }
        }
    }
    None
}

/// does the encoder hold exactly the expected abstraction for every probe?
fn encoder_complete(enc: &Encoder, probes: &[(Game, Abstraction)]) -> bool {
    probes.iter().all(|(g, a)| catch(std::panic::AssertUnwindSafe(|| enc.abstraction(g))) == Some(*a))
}

/// one directory with a blueprint file and the four street lookups; each file in turn is cut at many
/// points and the COMPOSITE loaders (`Encoder::load` = all four lookups, `Blueprint::load` = profile +
/// encoder) are run: they must fail, or deliver everything
fn composite_case(c: &mut Ctx, nrows: usize) {
    let prows = any_profile_rows(&mut c.rng, nrows);
    let profile = build_profile(&prows);
    let ptyped = intended_profile(&prows);
    let mut lookups: Vec<BTreeMap<Isomorphism, Abstraction>> = vec![];
    let mut probes: Vec<(Game, Abstraction)> = vec![];
    for s in STREETS {
        let mut m = BTreeMap::new();
        let mut tries = 0;
        while m.len() < nrows.max(1) && tries < 1000 {
            tries += 1;
            let iso = any_isomorphism(&mut c.rng, s);
            let abs = any_abstraction(&mut c.rng, Some(s));
            if let Some(g) = game_at(&iso.0) {
                // the stand-in answer of an EMPTY encoder must not be mistaken for the stored one
                if Encoder::verif_standin(&g) != abs && !m.contains_key(&iso) {
                    m.insert(iso, abs);
                    probes.push((g, abs));
                }
            }
        }
        lookups.push(m);
    }
    c.scr.clean();
    profile.save();
    for m in &lookups {
        Lookup::from(m.clone()).save();
    }
    let files = c.scr.files();
    assert!(files.len() == 5, "blueprint + four lookups: {:?}", files.iter().map(|f| &f.0).collect::<Vec<_>>());
    let get = |n: &str| files.iter().find(|f| f.0 == n).map(|f| f.1.clone()).expect("file");
    let names: Vec<String> = std::iter::once("blueprint".to_string()).chain(STREETS.iter().map(|s| format!("isomorphism.{s}"))).collect();
    let fulls: Vec<Vec<u8>> = names.iter().map(|n| get(n)).collect();
    let body = format!("{} {} {}", ptyped.len(), flat(&typed_rows(&ptyped)), lookups.iter().map(|m| format!("{} {}", m.len(), flat(&lookup_rows(m)))).collect::<Vec<_>>().join(" "));
    let load_enc = |probes: &[(Game, Abstraction)]| -> &'static str {
        match catch(|| <Encoder as Table>::load(Street::Rive)) {
            None => "fail",
            Some(e) => if encoder_complete(&e, probes) { "ok" } else { "short" },
        }
    };
    // complete directory first
    c.run.spec_checked += 1;
    if load_enc(&probes) != "ok" {
        c.run.fail("complete-directory-does-not-load", &format!("Encoder::load, {} lookup rows", probes.len()), "every stored abstraction", load_enc(&probes));
    }
    for target in 0..=4usize {
        let full = &fulls[target];
        let ks: Vec<usize> = if full.len() <= 420 { (0..=full.len()).collect() } else { cuts(c, full.len(), if target == 0 { 66 } else { 26 }).1 };
        let mut enc_ans = vec![];
        let mut bp_ans = vec![];
        for &k in &ks {
            c.scr.write(&names[target], &full[..k]);
            let what = format!("{} of {} bytes cut to {k} bytes (other four files complete)", names[target], full.len());
            // Encoder::load
            let ev = load_enc(&probes);
            if target > 0 {
                c.run.evaluations += 1;
                c.run.spec_checked += 1;
                c.run.count(&format!("Encoder::load, one street file cut -> {ev}"));
                c.run.distinct(&("enc", &body, target, k));
                if k < full.len() && ev == "short" {
                    c.run.fail("composite-load-accepts-truncated-street", &format!("Encoder::load with {what}"), "load fails, or holds every row of every street", "loaded with rows missing");
                }
                if k == full.len() && ev != "ok" {
                    c.run.fail("complete-directory-does-not-load", &format!("Encoder::load with {what}"), "ok", ev);
                }
                enc_ans.push(ev);
            }
            // Blueprint::load = Profile::load + Encoder::load (the encoder inside cannot be read back:
            // its part of the verdict is what Encoder::load just delivered on the same directory)
            c.run.evaluations += 1;
            c.run.spec_checked += 1;
            let bv = match catch(|| <Blueprint as Table>::load(Street::Rive)) {
                None => "fail",
                Some(bp) => {
                    let p = bp.verif_profile();
                    let same = profile_typed(&p.read().unwrap()) == ptyped;
                    if same && ev == "ok" { "ok" } else { "short" }
                }
            };
            c.run.count(&format!("Blueprint::load, {} cut -> {bv}", if target == 0 { "blueprint file" } else { "one street file" }));
            c.run.distinct(&("bp", &body, target, k));
            if k < full.len() && bv == "short" {
                c.run.fail("composite-load-accepts-truncated-file", &format!("Blueprint::load with {what}"), "load fails, or holds the complete profile and every street", "loaded with content missing");
            }
            if k == full.len() && bv != "ok" {
                c.run.fail("complete-directory-does-not-load", &format!("Blueprint::load with {what}"), "ok", bv);
            }
            bp_ans.push(bv);
        }
        c.scr.write(&names[target], full);
        let kstr = format!("{} {}", ks.len(), ks.iter().map(|k| k.to_string()).collect::<Vec<_>>().join(" "));
        if target > 0 {
            c.run.line(&format!("comp enc {target} {body} {kstr}"), &enc_ans.join(" "));
        }
        c.run.line(&format!("comp bp {target} {body} {kstr}"), &bp_ans.join(" "));
    }
}

fn any_profile_rows(rng: &mut Rng, n: usize) -> Vec<(Bucket, Edge, u32, u32)> {
    let mut rows = vec![];
    while rows.len() < n {
        let b = any_bucket(rng);
        for _ in 0..(1 + rng.below(4)).min((n - rows.len()) as u64) {
            rows.push((b, any_edge(rng), any_f32(rng), any_f32(rng)));
        }
    }
    rows
}
fn main() {
    let a = args();
    let out = std::fs::canonicalize(&a.out).unwrap_or_else(|_| {
        std::fs::create_dir_all(&a.out).expect("out dir");
        std::fs::canonicalize(&a.out).expect("out dir")
    });
    let out = out.to_string_lossy().into_owned();
    let rng = Rng::new(a.seed);
    let run = Run::new(&out);
    quiet_panics();
    let scr = Scratch::new(&out);
    let deep = a.thorough();
    let mut c = Ctx { run, scr, rng, deep, metric_flop: vec![], huge: false, giant: false };
    {
        let mut m = BTreeMap::new();
        while m.len() < 8128 {
            m.insert(c.rng.next(), any_f32(&mut c.rng));
        }
        let rows: Vec<(u64, u32)> = m.into_iter().collect();
        build_metric(&rows).save();
        c.metric_flop = std::fs::read("pgcopy/metric.flop").expect("metric.flop");
        c.scr.clean();
    }
    let nsmall = if deep { 60 } else { 30 };
    let big = if deep { 3000 } else { 1100 };
    c.run.rule = format!(
        "files written by the real save() of all four table kinds (0,1,2,3 rows, {nsmall} random tables of up to 5 rows, one of ~60 and one of ~{big} rows per kind, a lookup and a transitions table of ~4200 rows (more than 1024 / 4096 rows); transitions for preflop/flop/turn and the empty river file): for files up to 420 bytes EVERY prefix length 0..len, otherwise bytes 0..40, every row boundary, sampled offsets inside rows (first/second/last byte and random), the last 80 bytes, for all four loaders files of 1 MiB and 2 MiB (thorough: 8 MiB) cut in the header, at the first row boundaries past every MiB mark, in the middle, at 2^16 rows, at the last rows and in the trailer, each boundary with one byte before/after (oracle only, no model line), and one file a little over 16 MiB per loader (thorough: also ~33 MiB; quick tier: nodebug stream only) with cuts past the 16 MiB mark at a row boundary, boundary -1/+1/+2, mid-row, the last row and the trailer, cuts around row-block multiples (256·j and 2^i rows) and I/O-buffer multiples (8 KiB, 64 KiB, 1 MiB ± 2 bytes), and the complete file — all judged by the oracle, a sample of at most ~500 per large file also sent to the model; before the cuts (every cut for small files, every 16th otherwise) the same thread loads a different, LONGER complete file of the same kind, alternately under the same name and under another street's name, so that state left behind by an earlier load is in place; plus directories holding a blueprint file and the four street lookups where each of the five files in turn is cut at every byte and the COMPOSITE loaders Encoder::load (all four lookups; its content is probed through Encoder::abstraction on games built for every stored isomorphism) and Blueprint::load (profile + encoder) are run; each prefix replaces the file and is loaded by the real load() under catch_unwind; a case = one (file, cut), non-trivial when the table has at least one row; distinct by (table content, cut)");
    c.run.exhaustive = false;

    for n in [0usize, 1, 2, 3] {
        let rows = any_profile_rows(&mut c.rng, n);
        profile_case(&mut c, &rows);
        let rows: Vec<(u64, u32)> = (0..n).map(|_| (c.rng.next(), any_f32(&mut c.rng))).collect();
        metric_case(&mut c, &rows);
        if n > 0 {
            for s in STREETS {
                let mut m = BTreeMap::new();
                while m.len() < n {
                    m.insert(any_isomorphism(&mut c.rng, s), any_abstraction(&mut c.rng, Some(s)));
                }
                lookup_case(&mut c, &m);
            }
        }
    }
    // rows whose DATA contains the byte pair FF FF (the value of the trailer) at every byte offset of a field:
    // a loader that recognises the end of the table by value, or strips a trailing FF FF before splitting
    // the body into rows, takes a cut right after such a pair for the end of a complete table
    for s in [Street::Flop, Street::Turn] {
        let mut m = BTreeMap::new();
        let mut k = 0u32;
        while m.len() < 12 {
            let sh = 8 * (k % 6);
            let noise = c.rng.next() >> 8;
            let code = (street_index(s) << 56) | (((noise & !(0xFFFFu64 << sh)) | (0xFFFFu64 << sh)) & ((1u64 << 56) - 1));
            m.insert(any_isomorphism(&mut c.rng, s), Abstraction::from(code));
            k += 1;
        }
        lookup_case(&mut c, &m);
        c.run.count("lookup-rows-containing-FFFF");
    }
    {
        let mut rows: BTreeMap<u64, u32> = BTreeMap::new();
        let mut k = 0u32;
        while rows.len() < 12 {
            let sh = 8 * (k % 7);
            let key = (c.rng.next() & !(0xFFFFu64 << sh)) | (0xFFFFu64 << sh);
            // 0x3F7FFFFF = 0.99999994, 0x3EFFFF00: finite values whose bytes contain FF FF
            rows.insert(key, if k % 2 == 0 { 0x3F7F_FFFF } else { 0x3EFF_FF00 });
            k += 1;
        }
        let rows: Vec<(u64, u32)> = rows.into_iter().collect();
        metric_case(&mut c, &rows);
        c.run.count("metric-rows-containing-FFFF");
    }
    decomp_case(&mut c, BTreeMap::new());
    for s in [Street::Pref, Street::Flop, Street::Turn] {
        for n in [1usize, 2, 5] {
            let m = any_decomp(&mut c.rng, s, n, 4096);
            decomp_case(&mut c, m);
        }
    }
    // a value field that looks like a trailer or a row tag must not confuse the loader
    metric_case(&mut c, &[(0xFFFF_FFFF_FFFF_FFFF, 0xFFFF_FFFF), (0x0002_0002_0002_0002, 0x0002_0002), (0xFFFF_0000_0000_0008, 0x0000_0004)]);
    for _ in 0..nsmall {
        let n = c.rng.below(6) as usize;
        let rows = any_profile_rows(&mut c.rng, n);
        profile_case(&mut c, &rows);
        let n = c.rng.below(6) as usize;
        let rows: Vec<(u64, u32)> = (0..n).map(|_| (if c.rng.chance(1, 4) { c.rng.below(4) } else { c.rng.next() }, any_f32(&mut c.rng))).collect();
        metric_case(&mut c, &rows);
        let s = STREETS[c.rng.below(4) as usize];
        let n = 1 + c.rng.below(5) as usize;
        let mut m = BTreeMap::new();
        for _ in 0..n {
            m.insert(any_isomorphism(&mut c.rng, s), any_abstraction(&mut c.rng, None));
        }
        lookup_case(&mut c, &m);
        let s = [Street::Pref, Street::Flop, Street::Turn][c.rng.below(3) as usize];
        let n = 1 + c.rng.below(5) as usize;
        let m = any_decomp(&mut c.rng, s, n, 4096);
        decomp_case(&mut c, m);
    }
    // composite loaders over directories with one truncated file
    for n in if deep { vec![1usize, 2, 3, 5, 8, 12, 3, 4] } else { vec![1usize, 3, 6] } {
        composite_case(&mut c, n);
    }
    // larger tables: more than 1024 / 4096 rows, every row boundary judged by the oracle
    // the second stream (real code compiled without debug assertions) repeats the small-file part in
    // full and keeps one larger table per kind
    let light = is_nodebug() && !deep;
    for n in if deep { vec![60usize, big, 4200] } else if light { vec![60usize, 300] } else { vec![60usize, big] } {
        let rows = any_profile_rows(&mut c.rng, n);
        profile_case(&mut c, &rows);
        let rows: Vec<(u64, u32)> = (0..n).map(|_| (c.rng.next(), any_f32(&mut c.rng))).collect();
        metric_case(&mut c, &rows);
    }
    for n in if deep { vec![60usize, big, 9000] } else if light { vec![60usize, 300] } else { vec![60usize, 4200] } {
        let s = STREETS[1 + c.rng.below(3) as usize];
        let mut m = BTreeMap::new();
        while m.len() < n {
            m.insert(any_isomorphism(&mut c.rng, s), any_abstraction(&mut c.rng, Some(s)));
        }
        lookup_case(&mut c, &m);
    }
    for (n, nfrom) in if deep { vec![(60usize, 4096u64), (big, 4096), (4200, 64), (9000, 64)] } else if light { vec![(60usize, 4096u64), (1100, 64)] } else { vec![(60usize, 4096u64), (big, 4096), (4200, 64)] } {
        let s = [Street::Pref, Street::Flop, Street::Turn][c.rng.below(3) as usize];
        let m = any_decomp(&mut c.rng, s, n, nfrom);
        decomp_case(&mut c, m);
    }
    // ---------------- files of 1 MiB, 2 MiB (thorough: 8 MiB) for all four loaders: a loader that
    // switches to another code path for large files must still reject every cut
    c.huge = true;
    let mib = 1usize << 20;
    let targets: Vec<usize> = if deep { vec![mib, 2 * mib, 8 * mib] } else if light { vec![mib] } else { vec![mib, 2 * mib] };
    for t in targets {
        // rows so that the file is comfortably past the mark (a cut after the mark still leaves >= t bytes)
        let n = (t + t / 16) / 66;
        let rows = any_profile_rows(&mut c.rng, n);
        profile_case(&mut c, &rows);
        let n = (t + t / 16) / 22;
        let rows: Vec<(u64, u32)> = (0..n).map(|_| (c.rng.next(), any_f32(&mut c.rng))).collect();
        metric_case(&mut c, &rows);
        let n = (t + t / 16) / 26;
        let s = STREETS[2 + c.rng.below(2) as usize];
        let mut m = BTreeMap::new();
        while m.len() < n {
            m.insert(any_isomorphism(&mut c.rng, s), any_abstraction(&mut c.rng, Some(s)));
        }
        lookup_case(&mut c, &m);
        let n = (t + t / 16) / 34;
        let s = [Street::Pref, Street::Flop, Street::Turn][c.rng.below(3) as usize];
        let m = many_decomp(&mut c.rng, s, n);
        decomp_case(&mut c, m);
    }
    // ---------------- files a little over 16 MiB (thorough: also ~33 MiB): a handful of cuts past the
    // 16 MiB mark for every loader.  In the quick tier only the stream that runs the production
    // build (nodebug) does these; thorough does them in both streams.
    if deep || is_nodebug() {
        c.giant = true;
        for t in if deep { vec![17 * mib, 33 * mib] } else { vec![17 * mib] } {
            let rows = any_profile_rows(&mut c.rng, t / 66);
            profile_case(&mut c, &rows);
            drop(rows);
            c.scr.clean();
            let rows: Vec<(u64, u32)> = (0..t / 22).map(|_| (c.rng.next(), any_f32(&mut c.rng))).collect();
            metric_case(&mut c, &rows);
            drop(rows);
            c.scr.clean();
            let mut m = BTreeMap::new();
            while m.len() < t / 26 {
                m.insert(any_isomorphism(&mut c.rng, Street::Rive), any_abstraction(&mut c.rng, Some(Street::Rive)));
            }
            lookup_case(&mut c, &m);
            drop(m);
            c.scr.clean();
            let m = many_decomp(&mut c.rng, Street::Flop, t / 34);
            decomp_case(&mut c, m);
            c.scr.clean();
        }
        c.giant = false;
    } else {
        c.run.count("files past 16 MiB: run in the nodebug stream only in the quick tier (both streams in thorough)");
    }
    c.huge = false;
    c.scr.clean();
    c.run.finish();
}
