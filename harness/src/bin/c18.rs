// C18 — every (small files) / every row-boundary + sampled (large files) prefix of files written by
// the real Table::save of Profile, Metric, Lookup and Decomp is put in place of the file and given
// to the real Table::load under catch_unwind, vs the Lean model (`RP.Pgcopy.load*` on `take k`).
// Search oracle (from the property statement): a strict prefix either makes load fail (panic) or
// yields exactly the complete content; it never yields a table with rows missing.  The complete
// file must load to the complete content.
#[path = "../c17_shared.rs"]
mod shared;
use robopoker::cards::isomorphism::Isomorphism;
use robopoker::cards::street::Street;
use robopoker::clustering::abstraction::Abstraction;
use robopoker::clustering::histogram::Histogram;
use robopoker::clustering::lookup::Lookup;
use robopoker::clustering::transitions::Decomp;
use robopoker::mccfr::bucket::Bucket;
use robopoker::mccfr::edge::Edge;
use robopoker::save::upload::Table;
use rpharness::*;
use shared::*;
use std::collections::BTreeMap;

struct Ctx {
    run: Run,
    scr: Scratch,
    rng: Rng,
    deep: bool,
}

/// prefix lengths to try for a file of `len` bytes with rows of `row` bytes after a 19-byte header
fn cuts(c: &mut Ctx, len: usize, row: usize) -> Vec<usize> {
    let mut ks: Vec<usize> = vec![];
    if len <= 420 {
        ks.extend(0..=len);
        return ks;
    }
    ks.extend(0..=40.min(len));
    let nrows = (len - 21) / row;
    for j in 0..=nrows {
        ks.push(19 + j * row); // row boundaries: the cuts the pinned loaders did not notice
    }
    let extra = if c.deep { 2000 } else { 250 };
    for _ in 0..extra {
        let j = c.rng.below(nrows as u64 + 1) as usize;
        let off = match c.rng.below(4) {
            0 => 1,
            1 => 2,
            2 => row - 1,
            _ => c.rng.below(row as u64) as usize,
        };
        ks.push((19 + j * row + off).min(len));
    }
    ks.extend(len.saturating_sub(80)..=len);
    ks.sort();
    ks.dedup();
    ks
}

/// run all cuts of one saved file; `load` returns Some(Some(n)) = loaded, content differs, n rows;
/// Some(None) = loaded and equal to the complete content; None = panic
fn run_cuts(
    c: &mut Ctx, table: &str, aux: u64, rows: &[Vec<u64>], name: &str, full: &[u8], rowsize: usize,
    load: &mut dyn FnMut() -> Option<Option<usize>>, river: bool,
) {
    let ks = cuts(c, full.len(), rowsize);
    let op = format!("cuts {table} {aux} {} {} {} {}", rows.len(), flat(rows), ks.len(), ks.iter().map(|k| k.to_string()).collect::<Vec<_>>().join(" "));
    let mut ans: Vec<String> = Vec::with_capacity(ks.len());
    let boundary = |k: usize| k >= 19 && k < full.len() - 1 && (k - 19) % rowsize == 0;
    for &k in &ks {
        c.scr.write(name, &full[..k]);
        c.run.evaluations += 1;
        c.run.spec_checked += 1;
        let r = load();
        let tok = match r {
            None => "fail".to_string(),
            Some(None) => "ok".to_string(),
            Some(Some(n)) => format!("short:{n}"),
        };
        let cls = if k == full.len() { "cut=none(complete file)" } else if k < 19 { "cut=in-header" } else if boundary(k) { "cut=row-boundary" } else if k >= full.len() - 2 { "cut=in-trailer" } else { "cut=inside-row" };
        c.run.count(&format!("{table} {cls} -> {}", if tok.starts_with("short") { "short" } else { &tok }));
        let short_op = format!("{table} file of {} bytes ({} rows) cut to {k} bytes", full.len(), rows.len());
        if k < full.len() {
            if let Some(Some(n)) = r {
                c.run.fail("truncated-file-loads-short", &short_op, "load fails, or returns the complete content", &format!("load succeeded with {n} rows"));
            }
        } else if !river {
            if tok != "ok" {
                c.run.fail("complete-file-does-not-load", &short_op, "the complete content", &tok);
            }
        }
        if !rows.is_empty() {
            c.run.distinct(&(table, rows, k));
        }
        ans.push(tok);
    }
    c.run.line(&op, &ans.join(" "));
}

fn profile_case(c: &mut Ctx, rows: &[(Bucket, Edge, u32, u32)]) {
    let p = build_profile(rows);
    let orig = profile_rows(&p);
    let typed = profile_typed(&p);
    c.scr.clean();
    p.save();
    let files = c.scr.files();
    assert!(files.len() == 1 && files[0].0 == "blueprint", "blueprint file");
    let full = files[0].1.clone();
    let mut load = || catch(|| profile_load()).map(|l| { let t = profile_typed(&l); if t == typed { None } else { Some(t.len()) } });
    run_cuts(c, "blueprint", 0, &orig, "blueprint", &full, 66, &mut load, false);
}
fn metric_case(c: &mut Ctx, rows: &[(u64, u32)]) {
    let m = build_metric(rows);
    let orig = metric_rows(&m);
    let typed = metric_typed(&m);
    c.scr.clean();
    m.save();
    let files = c.scr.files();
    assert!(files.len() == 1, "metric file");
    let name = files[0].0.clone();
    let street = name.strip_prefix("metric.").and_then(street_of_suffix).expect("metric street");
    let full = files[0].1.clone();
    let mut load = || catch(move || metric_load(street)).map(|l| { let t = metric_typed(&l); if t == typed { None } else { Some(t.len()) } });
    run_cuts(c, "metric", 0, &orig, &name, &full, 22, &mut load, false);
}
fn lookup_case(c: &mut Ctx, map: &BTreeMap<Isomorphism, Abstraction>) {
    let orig = lookup_rows(map);
    c.scr.clean();
    Lookup::from(map.clone()).save();
    let files = c.scr.files();
    assert!(files.len() == 1, "lookup file");
    let name = files[0].0.clone();
    let street = name.strip_prefix("isomorphism.").and_then(street_of_suffix).expect("lookup street");
    let full = files[0].1.clone();
    let mut load = || catch(move || BTreeMap::from(lookup_load(street))).map(|l| if &l == map { None } else { Some(l.len()) });
    run_cuts(c, "lookup", 0, &orig, &name, &full, 26, &mut load, false);
}
/// Decomp has no read accessor: what a load delivered is observed by saving it again
fn decomp_case(c: &mut Ctx, map: BTreeMap<Abstraction, Histogram>) {
    let orig = decomp_rows(&map);
    c.scr.clean();
    Decomp::from(map).save();
    let files = c.scr.files();
    assert!(files.len() == 1, "transitions file");
    let name = files[0].0.clone();
    let street = name.strip_prefix("transitions.").and_then(street_of_suffix).expect("transitions street");
    let river = street == Street::Rive;
    let mass = if river { 0 } else { street.n_children() as u64 };
    let full = files[0].1.clone();
    // the complete content as a complete load delivers it
    let path = format!("pgcopy/{name}");
    c.scr.write(&name, &full);
    let complete: Option<Vec<u8>> = catch(|| decomp_load(street)).map(|d| {
        d.save();
        std::fs::read(&path).expect("resaved")
    });
    if complete.is_none() && !river {
        c.run.fail("complete-file-does-not-load", &format!("transitions {} rows", orig.len()), "the complete content", "panic");
    }
    let mut load = || {
        catch(|| decomp_load(street)).map(|d| {
            d.save();
            let again = std::fs::read(&path).expect("resaved");
            if Some(&again) == complete.as_ref() { None } else { Some((again.len().saturating_sub(21)) / 34) }
        })
    };
    run_cuts(c, "transitions", mass, &orig, &name, &full, 34, &mut load, river);
}

fn any_profile_rows(rng: &mut Rng, n: usize) -> Vec<(Bucket, Edge, u32, u32)> {
    let mut rows = vec![];
    while rows.len() < n {
        let b = any_bucket(rng);
        for _ in 0..(1 + rng.below(4)).min((n - rows.len()) as u64) {
            rows.push((b, any_edge(rng), any_f32(rng), any_f32(rng)));
        }
    }
    rows
}
fn any_decomp(rng: &mut Rng, street: Street, n: usize) -> BTreeMap<Abstraction, Histogram> {
    let next = match street {
        Street::Pref => Street::Flop,
        Street::Flop => Street::Turn,
        _ => Street::Rive,
    };
    let mut m = BTreeMap::new();
    let mut total = 0;
    while total < n {
        let from = Abstraction::from((street, rng.below(4096) as usize));
        let k = 1 + rng.below(6) as usize;
        let support: Vec<Abstraction> = (0..k).map(|_| Abstraction::from((next, rng.below(128) as usize))).collect();
        let draws = 1 + rng.below(40);
        let v: Vec<Abstraction> = (0..draws).map(|_| support[rng.below(k as u64) as usize]).collect();
        let h = Histogram::from(v);
        total += h.n();
        m.insert(from, h);
    }
    m
}

fn main() {
    let a = args();
    let out = std::fs::canonicalize(&a.out).unwrap_or_else(|_| {
        std::fs::create_dir_all(&a.out).expect("out dir");
        std::fs::canonicalize(&a.out).expect("out dir")
    });
    let out = out.to_string_lossy().into_owned();
    let rng = Rng::new(a.seed);
    let run = Run::new(&out);
    quiet_panics();
    let scr = Scratch::new(&out);
    let deep = a.thorough();
    let mut c = Ctx { run, scr, rng, deep };
    let nsmall = if deep { 60 } else { 30 };
    let big = if deep { 3000 } else { 800 };
    c.run.rule = format!(
        "files written by the real save() of all four table kinds (0,1,2,3 rows, {nsmall} random tables of up to 5 rows, one of ~60 and one of ~{big} rows per kind; transitions for preflop/flop/turn and the empty river file): for files up to 420 bytes EVERY prefix length 0..len, otherwise bytes 0..40, every row boundary, sampled offsets inside rows (first/second/last byte and random), the last 80 bytes, and the complete file; each prefix replaces the file and is loaded by the real load() under catch_unwind; a case = one (file, cut), non-trivial when the table has at least one row; distinct by (table content, cut)");
    c.run.exhaustive = false;

    for n in [0usize, 1, 2, 3] {
        let rows = any_profile_rows(&mut c.rng, n);
        profile_case(&mut c, &rows);
        let rows: Vec<(u64, u32)> = (0..n).map(|_| (c.rng.next(), any_f32(&mut c.rng))).collect();
        metric_case(&mut c, &rows);
        if n > 0 {
            for s in STREETS {
                let mut m = BTreeMap::new();
                while m.len() < n {
                    m.insert(any_isomorphism(&mut c.rng, s), any_abstraction(&mut c.rng, Some(s)));
                }
                lookup_case(&mut c, &m);
            }
        }
    }
    decomp_case(&mut c, BTreeMap::new());
    for s in [Street::Pref, Street::Flop, Street::Turn] {
        for n in [1usize, 2, 5] {
            let m = any_decomp(&mut c.rng, s, n);
            decomp_case(&mut c, m);
        }
    }
    // a value field that looks like a trailer or a row tag must not confuse the loader
    metric_case(&mut c, &[(0xFFFF_FFFF_FFFF_FFFF, 0xFFFF_FFFF), (0x0002_0002_0002_0002, 0x0002_0002), (0xFFFF_0000_0000_0008, 0x0000_0004)]);
    for _ in 0..nsmall {
        let n = c.rng.below(6) as usize;
        let rows = any_profile_rows(&mut c.rng, n);
        profile_case(&mut c, &rows);
        let n = c.rng.below(6) as usize;
        let rows: Vec<(u64, u32)> = (0..n).map(|_| (if c.rng.chance(1, 4) { c.rng.below(4) } else { c.rng.next() }, any_f32(&mut c.rng))).collect();
        metric_case(&mut c, &rows);
        let s = STREETS[c.rng.below(4) as usize];
        let n = 1 + c.rng.below(5) as usize;
        let mut m = BTreeMap::new();
        for _ in 0..n {
            m.insert(any_isomorphism(&mut c.rng, s), any_abstraction(&mut c.rng, None));
        }
        lookup_case(&mut c, &m);
        let s = [Street::Pref, Street::Flop, Street::Turn][c.rng.below(3) as usize];
        let n = 1 + c.rng.below(5) as usize;
        let m = any_decomp(&mut c.rng, s, n);
        decomp_case(&mut c, m);
    }
    for n in [60usize, big] {
        let rows = any_profile_rows(&mut c.rng, n);
        profile_case(&mut c, &rows);
        let rows: Vec<(u64, u32)> = (0..n).map(|_| (c.rng.next(), any_f32(&mut c.rng))).collect();
        metric_case(&mut c, &rows);
        let s = STREETS[1 + c.rng.below(3) as usize];
        let mut m = BTreeMap::new();
        while m.len() < n {
            m.insert(any_isomorphism(&mut c.rng, s), any_abstraction(&mut c.rng, Some(s)));
        }
        lookup_case(&mut c, &m);
        let s = [Street::Pref, Street::Flop, Street::Turn][c.rng.below(3) as usize];
        let m = any_decomp(&mut c.rng, s, n);
        decomp_case(&mut c, m);
    }
    c.scr.clean();
    c.run.finish();
}
