// C13 — one k-means step on synthetic layers through hooks H7 (Layer::verif_*) and H8
// (Histogram::verif_mass / verif_counts):
//  (a) correspondence with the Lean model `RP.Kmeans` (the real distances enter as bit patterns,
//      so argmin is compared as an order and masses exactly), and
//  (b) a search oracle from the property text: every point merged into exactly one centroid,
//      the FIRST one at the smallest distance; centroids = exact multiset union of their points;
//      lookup maps the i-th isomorphism class to the bucket of the i-th point's nearest centroid;
//      derived metric: one entry per unordered pair, symmetric, >= 0, max 1 (or all 0),
//      pair keys collision-free for the real cluster counts.
use robopoker::cards::isomorphism::Isomorphism;
use robopoker::cards::isomorphisms::IsomorphismIterator;
use robopoker::cards::street::Street;
use robopoker::clustering::abstraction::Abstraction;
use robopoker::clustering::histogram::Histogram;
use robopoker::clustering::layer::Layer;
use robopoker::clustering::metric::Metric;
use robopoker::clustering::pair::Pair;
use robopoker::transport::measure::Measure;
use rpharness::*;
use std::collections::{BTreeMap, BTreeSet};
use std::fmt::Write as _;
use std::panic::AssertUnwindSafe;

fn code(a: &Abstraction) -> u128 {
    let v: u128 = match a {
        Abstraction::Percent(_) => 0,
        Abstraction::Learned(_) => 1,
        Abstraction::Preflop(_) => 2,
    };
    (v << 64) | u64::from(*a) as u128
}
fn fl(x: f32) -> String {
    if x.is_nan() { "~NaN".into() } else { format!("~{:e}", x) }
}
fn hist_str(h: &Histogram) -> String {
    let cs = h.verif_counts();
    let mut s = format!("{} {}", cs.len(), h.verif_mass());
    for (a, c) in cs.iter() {
        let _ = write!(s, " {} {}", code(a), c);
    }
    s
}
fn hist_ans(h: &Histogram) -> String {
    let cs = h.verif_counts();
    let mut s = format!(" {} {}", h.verif_mass(), cs.len());
    for (a, c) in cs.iter() {
        let _ = write!(s, " {} {}", code(a), c);
    }
    s
}
fn street_no(s: Street) -> usize {
    s as isize as usize
}

fn gen_hist(rng: &mut Rng, universe: &[Abstraction], center: usize, spread: usize, samples: usize) -> Histogram {
    // samples concentrated around `center` (so that clusters exist), plus a little noise
    let mut v = vec![];
    for _ in 0..samples {
        let i = if rng.chance(1, 8) {
            rng.below(universe.len() as u64) as usize
        } else {
            let off = rng.below(2 * spread as u64 + 1) as i64 - spread as i64;
            (center as i64 + off).clamp(0, universe.len() as i64 - 1) as usize
        };
        v.push(universe[i]);
    }
    Histogram::from(v)
}

struct Case {
    street: Street,
    metric_raw: BTreeMap<Pair, f32>,
    points: Vec<Histogram>,
    kmeans: Vec<Histogram>,
    tag: String,
    vdist: bool,
}

fn layer_of(c: &Case) -> Layer {
    Layer::verif_new(c.street, Metric::from(c.metric_raw.clone()), c.points.clone(), c.kmeans.clone())
}

/// exact 1-D Wasserstein distance on the 0..100 grid times 100/101, in f64, from the raw counts
fn w1_scaled(x: &Histogram, y: &Histogram) -> f64 {
    let pdf = |h: &Histogram| -> Vec<f64> {
        let m = h.verif_mass() as f64;
        let mut v = vec![0f64; 101];
        for (a, c) in h.verif_counts() { v[a.index()] += c as f64 / m; }
        v
    };
    let (p, q) = (pdf(x), pdf(y));
    let (mut fx, mut fy, mut w) = (0f64, 0f64, 0f64);
    for i in 0..100 { fx += p[i]; fy += q[i]; w += (fx - fy).abs(); }
    w / 101.0
}

/// every check of one layer: neighborhoods, next, lookup, metric. returns the real next() centroids
fn exercise(run: &mut Run, case: &Case, layer: &Layer) -> Option<Vec<Histogram>> {
    let (n, kc) = (case.points.len(), case.kmeans.len());
    let k_alloc = case.street.k();
    run.count(&format!("layer:{}", case.tag.split("-run").next().unwrap()));
    run.count(&format!("points={}", match n { 0..=29 => "10-29", 30..=99 => "30-99", 100..=249 => "100-249", _ => "250-500" }));
    run.count(&format!("centroids={}", match kc { 1 => "1", 2 => "2", 3..=16 => "3-16", 17..=143 => "17-143", _ => "144+" }));
    // ---- the real distances (hook verif_emd): rows[i][j] = emd(point i, centroid j)
    let rows: Option<Vec<Vec<f32>>> = catch(AssertUnwindSafe(|| {
        case.points.iter().map(|p| case.kmeans.iter().map(|c| layer.verif_emd(p, c)).collect()).collect()
    }));
    let rows = match rows {
        Some(r) => r,
        None => {
            run.notes.push(format!("layer {} skipped: emd itself panics", case.tag));
            return None;
        }
    };
    run.evaluations += (n * kc) as u64;
    // ---- independent distances, from scratch in f64 (equity layers): W1 on the grid * 100/101
    let d64: Option<Vec<Vec<f64>>> = if case.street == Street::Turn && case.kmeans.iter().all(|c| c.verif_mass() > 0) {
        Some(case.points.iter().map(|p| case.kmeans.iter().map(|c| w1_scaled(p, c)).collect()).collect())
    } else {
        None
    };
    if let Some(d64) = &d64 {
        for i in 0..n {
            for j in 0..kc {
                run.spec_checked += 1;
                if (rows[i][j] as f64 - d64[i][j]).abs() > 2e-6 + 1e-5 * d64[i][j] {
                    run.fail("emd-to-centroid-wrong", &format!("{} point {i} ({}) centroid {j} ({})", case.tag, hist_str(&case.points[i]), hist_str(&case.kmeans[j])),
                        &format!("W1*100/101 = {}", d64[i][j]), &format!("{}", rows[i][j]));
                }
            }
        }
        if case.vdist {
            for i in 0..n {
                for j in 0..kc {
                    run.line(&format!("vdist {} {}", hist_str(&case.points[i]), hist_str(&case.kmeans[j])), &fl(rows[i][j]));
                }
            }
        }
    }
    // ---- neighborhood, point by point
    let mut nbrs: Vec<Option<(usize, f32)>> = vec![];
    for (i, p) in case.points.iter().enumerate() {
        let got = catch(AssertUnwindSafe(|| layer.verif_neighborhood(p)));
        let mut op = format!("nbr {kc}");
        for d in &rows[i] { let _ = write!(op, " {}", d.to_bits()); }
        let ans = match got { Some((k, d)) => format!("{k} {}", fl(d)), None => "panic".into() };
        run.line(&op, &ans);
        run.distinct(&op);
        // oracle: first index attaining the minimum; NaN among >= 2 distances => failure outcome
        run.spec_checked += 1;
        let has_nan = rows[i].iter().any(|d| d.is_nan());
        if has_nan && kc >= 2 {
            if got.is_some() {
                run.fail("neighborhood-nan-not-rejected", &op, "panic (unordered distances)", &ans);
            }
        } else {
            let mn = rows[i].iter().cloned().fold(f32::INFINITY, f32::min);
            let first = rows[i].iter().position(|d| *d == mn || (kc == 1));
            match (got, first) {
                (Some((k, d)), Some(f)) => {
                    if k != f || (d.to_bits() != rows[i][f].to_bits() && !(d.is_nan() && rows[i][f].is_nan())) {
                        run.fail("neighborhood-not-first-nearest", &format!("{} point {i}: distances {:?}", case.tag, rows[i]), &format!("index {f} at {}", rows[i][f]), &ans);
                    }
                }
                _ => run.fail("neighborhood-panics", &op, "an index", &ans),
            }
        }
        if let (Some(d64), Some((k, _))) = (&d64, got) {
            // nearest-centroid clause against the independent distances
            run.spec_checked += 1;
            let least = d64[i].iter().cloned().fold(f64::INFINITY, f64::min);
            let best = d64[i].iter().position(|d| *d == least).unwrap();
            if k >= kc || d64[i][k] > least + 1e-5 {
                run.fail("neighborhood-not-nearest-centroid", &format!("{} point {i} ({}): independent distances {:?}", case.tag, hist_str(p), d64[i]),
                    &format!("centroid {best} at {least}"), &format!("centroid {k} at {}", d64[i].get(k).copied().unwrap_or(f64::NAN)));
            }
        }
        nbrs.push(got);
    }
    // ---- next
    let real_next = catch(AssertUnwindSafe(|| layer.verif_next()));
    let mut op = format!("next {} {kc} {n}", street_no(case.street));
    for (i, p) in case.points.iter().enumerate() {
        let _ = write!(op, " {}", hist_str(p));
        for d in &rows[i] { let _ = write!(op, " {}", d.to_bits()); }
    }
    let ans = match &real_next {
        None => "panic".to_string(),
        Some(cs) => { let mut s = format!("ok {}", cs.len()); for c in cs { s.push_str(&hist_ans(c)); } s }
    };
    run.line(&op, &ans);
    run.distinct(&op);
    run.evaluations += 1;
    run.spec_checked += 1;
    let all_ok = nbrs.iter().all(|x| x.is_some());
    let in_range = nbrs.iter().all(|x| x.map_or(true, |(k, _)| k < k_alloc));
    match &real_next {
        None => {
            if all_ok && in_range {
                run.fail("next-panics", &format!("{} n={n} k={kc}", case.tag), "centroids", "panic");
            }
        }
        Some(cs) => {
            if !all_ok || !in_range {
                run.fail("next-accepts-failed-assignment", &format!("{} n={n} k={kc}", case.tag), "panic", "centroids");
            } else {
                // expected: centroid j = exact union of the points whose first-nearest centroid is j
                let mut want: Vec<(usize, BTreeMap<Abstraction, usize>)> = vec![(0, BTreeMap::new()); k_alloc];
                for (i, p) in case.points.iter().enumerate() {
                    let mn = rows[i].iter().cloned().fold(f32::INFINITY, f32::min);
                    let f = rows[i].iter().position(|d| *d == mn || kc == 1).unwrap();
                    want[f].0 += p.verif_mass();
                    for (a, c) in p.verif_counts() { *want[f].1.entry(a).or_default() += c; }
                }
                let total: usize = cs.iter().map(|c| c.verif_mass()).sum();
                let total_pts: usize = case.points.iter().map(|p| p.verif_mass()).sum();
                if cs.len() != k_alloc {
                    run.fail("next-centroid-count", &case.tag, &format!("{k_alloc}"), &format!("{}", cs.len()));
                }
                if total != total_pts {
                    run.fail("next-mass-not-conserved", &case.tag, &format!("{total_pts}"), &format!("{total}"));
                }
                for (j, c) in cs.iter().enumerate() {
                    let got: BTreeMap<Abstraction, usize> = c.verif_counts().into_iter().collect();
                    if c.verif_mass() != want[j].0 || got != want[j].1 {
                        run.fail("next-centroid-not-union-of-nearest-points", &format!("{} centroid {j}", case.tag), &format!("mass {}", want[j].0), &format!("mass {}", c.verif_mass()));
                    }
                    let s: usize = got.values().sum();
                    if s != c.verif_mass() {
                        run.fail("next-mass-not-sum-of-counts", &format!("{} centroid {j}", case.tag), &format!("{s}"), &format!("{}", c.verif_mass()));
                    }
                }
            }
        }
    }
    // ---- lookup (Flop / Turn branch of Layer::lookup)
    if case.street == Street::Flop || case.street == Street::Turn {
        let real = catch(AssertUnwindSafe(|| BTreeMap::<Isomorphism, Abstraction>::from(layer.verif_lookup())));
        let isos: Vec<Isomorphism> = IsomorphismIterator::from(case.street).take(n).collect();
        let mut op = format!("lookup {} {kc} {n}", street_no(case.street));
        for r in &rows { for d in r { let _ = write!(op, " {}", d.to_bits()); } }
        let ans = match &real {
            None => "panic".to_string(),
            Some(map) => {
                let mut s = String::from("ok");
                for iso in &isos {
                    match map.get(iso) { Some(ab) => { let _ = write!(s, " {}", code(ab)); } None => s.push_str(" missing") }
                }
                s
            }
        };
        run.line(&op, &ans);
        run.evaluations += 1;
        run.spec_checked += 1;
        match &real {
            None => if all_ok { run.fail("lookup-panics", &case.tag, "a table", "panic"); },
            Some(map) => {
                if !all_ok {
                    run.fail("lookup-accepts-failed-assignment", &case.tag, "panic", "a table");
                } else {
                    if map.len() != n {
                        run.fail("lookup-size", &case.tag, &format!("{n} classes"), &format!("{}", map.len()));
                    }
                    for (i, iso) in isos.iter().enumerate() {
                        let mn = rows[i].iter().cloned().fold(f32::INFINITY, f32::min);
                        let f = rows[i].iter().position(|d| *d == mn || kc == 1).unwrap();
                        let want = Abstraction::from((case.street, f));
                        if map.get(iso) != Some(&want) {
                            run.fail("lookup-not-nearest-centroid-of-ith-point", &format!("{} class {i} ({})", case.tag, iso.0), &format!("{want}"), &format!("{:?}", map.get(iso)));
                        }
                    }
                }
            }
        }
        run.count("lookup");
    }
    // ---- derived metric over the centroids
    let nonempty = case.kmeans.iter().all(|h| h.verif_mass() > 0);
    let affordable = case.street == Street::Turn || kc <= 16;
    if nonempty && affordable && kc <= k_alloc {
        let emds: Option<Vec<Vec<f32>>> = catch(AssertUnwindSafe(|| {
            case.kmeans.iter().map(|x| case.kmeans.iter().map(|y| layer.verif_emd(x, y)).collect()).collect()
        }));
        let real = catch(AssertUnwindSafe(|| layer.verif_metric()));
        if let (Some(emds), Some(m)) = (emds, real) {
            let mut op = format!("metric {} {kc}", street_no(case.street));
            for r in &emds { for d in r { let _ = write!(op, " {}", d.to_bits()); } }
            let es = m.verif_entries();
            let mut ans = format!("{}", es.len());
            for (p, d) in &es { let _ = write!(ans, " {} {}", i64::from(*p) as u64, fl(*d)); }
            run.line(&op, &ans);
            run.distinct(&op);
            run.evaluations += (kc * kc) as u64;
            run.spec_checked += 1;
            let short = format!("{} metric over {kc} centroids", case.tag);
            if es.len() != kc * (kc - 1) / 2 {
                run.fail("metric-entry-count", &short, &format!("{} unordered pairs", kc * (kc - 1) / 2), &format!("{}", es.len()));
            }
            let raw = |i: usize, j: usize| (emds[i][j] as f64 + emds[j][i] as f64) / 2.0;
            let mut mx = 0f64;
            for i in 0..kc { for j in 0..i { mx = mx.max(raw(i, j)); } }
            let mut seen_max = 0f32;
            for i in 0..kc {
                for j in 0..kc {
                    if i == j { continue; }
                    let (x, y) = (Abstraction::from((case.street, i)), Abstraction::from((case.street, j)));
                    // read through the stored entries (Pref abstractions have no Metric::distance arm),
                    // and through Metric::distance where the street has one
                    let emap: BTreeMap<Pair, f32> = es.iter().cloned().collect();
                    let mut dxy = emap.get(&Pair::from((&x, &y))).copied();
                    let mut dyx = emap.get(&Pair::from((&y, &x))).copied();
                    if case.street != Street::Pref {
                        let via = catch(AssertUnwindSafe(|| (m.distance(&x, &y), m.distance(&y, &x))));
                        match via {
                            Some((p, q)) => {
                                if Some(p.to_bits()) != dxy.map(f32::to_bits) {
                                    run.fail("metric-distance-not-entry", &format!("{short} ({i},{j})"), &format!("{dxy:?}"), &format!("{p}"));
                                }
                                dxy = Some(p);
                                dyx = Some(q);
                            }
                            None => { dxy = None; dyx = None; }
                        }
                    }
                    match (dxy, dyx) {
                        (Some(p), Some(q)) => {
                            if p.to_bits() != q.to_bits() {
                                run.fail("metric-asymmetric", &format!("{short} ({i},{j})"), &format!("{p}"), &format!("{q}"));
                            }
                            if !(p >= 0.0) {
                                run.fail("metric-negative", &format!("{short} ({i},{j})"), ">= 0", &format!("{p}"));
                            }
                            let want = if mx > 0.0 { raw(i, j) / mx } else { 0.0 };
                            if (p as f64 - want).abs() > 1e-5 {
                                run.fail("metric-value", &format!("{short} ({i},{j})"), &format!("{want}"), &format!("{p}"));
                            }
                            seen_max = seen_max.max(p);
                        }
                        _ => run.fail("metric-missing-pair", &format!("{short} ({i},{j})"), "an entry", "missing"),
                    }
                }
            }
            // every stored entry is a finite number in [0, 1]; all 0 when every distance is 0
            run.spec_checked += 1;
            if let Some((p, d)) = es.iter().find(|e| !(e.1.is_finite() && e.1 >= 0.0 && e.1 <= 1.0)) {
                run.fail("metric-entry-not-finite-in-unit-interval", &format!("{short}, key {}", i64::from(*p) as u64), "a finite value in [0, 1]", &format!("{d}"));
            }
            if mx == 0.0 {
                if let Some((p, d)) = es.iter().find(|e| e.1.to_bits() != 0f32.to_bits() && e.1 != 0.0 || e.1.is_nan()) {
                    run.fail("metric-all-zero-distances-not-stored-as-zero", &format!("{short}, key {}", i64::from(*p) as u64), "0 (all centroid distances are 0)", &format!("{d}"));
                }
            }
            if kc >= 2 && !((seen_max - 1.0).abs() < 1e-6 || (mx == 0.0 && seen_max == 0.0)) {
                run.fail("metric-not-scaled-to-one", &short, "max 1 (or all 0)", &format!("{seen_max}"));
            }
            run.count("metric");
        } else {
            run.notes.push(format!("layer {}: metric/emd over centroids panics", case.tag));
        }
    }
    real_next
}

/// a Vec<Histogram> buffer of capacity k at the same address as the previous step's centroid buffer
/// (the allocator hands back the chunk the dropped Layer just freed; retried, verified, counted)
fn stable_buffer(prev: Option<usize>, k: usize) -> (Vec<Histogram>, bool) {
    let mut held: Vec<Vec<Histogram>> = vec![];
    for _ in 0..64 {
        let v: Vec<Histogram> = Vec::with_capacity(k);
        let p = v.as_ptr() as usize;
        if prev.map_or(true, |q| q == p) {
            return (v, true);
        }
        held.push(v);
    }
    (Vec::with_capacity(k), false)
}

/// several consecutive k-means steps on one thread, the centroids of every step living at the SAME
/// addresses as those of the step before, all with equal mass (46 samples per hand) and equal support
/// size; the nearest-centroid oracle is recomputed from scratch in f64 at every step
fn multistep_suite(run: &mut Run, rng: &mut Rng, deep: bool) {
    let river: Vec<Abstraction> = (0..=100).map(|i| Abstraction::from((Street::Rive, i))).collect();
    // a hand: 46 samples on exactly `s` distinct buckets inside a window
    let hand = |rng: &mut Rng, lo: usize, width: usize, s: usize| -> Histogram {
        let mut pool: Vec<usize> = (lo..(lo + width).min(101)).collect();
        let mut sup = vec![];
        for _ in 0..s { let i = rng.below(pool.len() as u64) as usize; sup.push(pool.swap_remove(i)); }
        let mut v: Vec<Abstraction> = sup.iter().map(|&b| river[b]).collect();
        while v.len() < 46 { v.push(river[sup[rng.below(s as u64) as usize]]); }
        Histogram::from(v)
    };
    let runs = if deep { 12 } else { 4 };
    for r in 0..runs {
        let lloyd = r % 2 == 1;
        let kc = 3 + (r % 3);
        let n = 24 + rng.below(30) as usize;
        let s = 4 + rng.below(4) as usize;
        let width = if lloyd { s + 2 } else { 30 };
        let centers: Vec<usize> = (0..kc).map(|_| rng.below(if lloyd { 12 } else { 60 }) as usize).collect();
        let points: Vec<Histogram> = (0..n).map(|_| {
            let c = centers[rng.below(kc as u64) as usize] + rng.below(if lloyd { 3 } else { 10 }) as usize;
            hand(rng, c, width, s)
        }).collect();
        let mut current: Vec<Histogram> = (0..kc).map(|_| points[rng.below(n as u64) as usize].clone()).collect();
        let mut prev_ptr: Option<usize> = None;
        let mut alive: Option<Layer> = None;
        let steps = if deep { 8 } else { 5 };
        for t in 0..steps {
            let items = current.clone();
            drop(alive.take()); // frees the previous step's centroid buffer ...
            let (mut buf, reused) = stable_buffer(prev_ptr, kc); // ... which this step's centroids now occupy
            for h in items { buf.push(h); }
            prev_ptr = Some(buf.as_ptr() as usize);
            run.count(if t == 0 { "multistep-first-step" } else if reused { "multistep-step-at-reused-addresses" } else { "multistep-step-at-new-addresses" });
            let layer = Layer::verif_new(Street::Turn, Metric::default(), points.clone(), buf);
            let case = Case {
                street: Street::Turn, metric_raw: BTreeMap::new(), points: points.clone(), kmeans: current.clone(),
                tag: format!("Turn+multistep-{}-run{r}-step{t}", if lloyd { "lloyd" } else { "reseed" }), vdist: true,
            };
            let next = exercise(run, &case, &layer);
            alive = Some(layer);
            current = if lloyd {
                match next {
                    Some(cs) if cs.iter().take(kc).all(|c| c.verif_mass() > 0) => cs.into_iter().take(kc).collect(),
                    // an emptied cluster: re-seed it, as a practical k-means would
                    Some(cs) => cs.into_iter().take(kc).map(|c| if c.verif_mass() > 0 { c } else { points[rng.below(n as u64) as usize].clone() }).collect(),
                    None => break,
                }
            } else {
                // same masses (46) and same support sizes (s), different hands
                (0..kc).map(|_| points[rng.below(n as u64) as usize].clone()).collect()
            };
        }
    }
}

/// centroids beyond 65,536 and 131,072 samples: step 1 on heavy points, then further steps on the
/// populous centroids, with the f64 from-scratch oracle at every step; and `density` probed directly
/// on histograms whose mass is around 2^16, 2^24 and 2^32 against the exact count / mass
fn populous_suite(run: &mut Run, rng: &mut Rng, deep: bool) {
    let river: Vec<Abstraction> = (0..=100).map(|i| Abstraction::from((Street::Rive, i))).collect();
    // ---- density probes
    let probes: Vec<(usize, usize)> = vec![
        (1, 46), (46, 46), (65_535, 65_536), (1, 65_536), (40_000, 65_537), (65_536, 131_072), (100_000, 131_073), (70_000, 200_000),
        (1, 16_777_216), (16_777_217, 33_554_434), (3, 4_294_967_296), (4_294_967_297, 8_589_934_594), (123_456_789, 9_876_543_210),
    ];
    for (pi, &(c, m)) in probes.iter().enumerate() {
        let (a, b) = (river[(pi * 7) % 101], river[(pi * 7 + 50) % 101]);
        let mut h = Histogram::default();
        h.set(a, c);
        if m > c { h.set(b, m - c); }
        for (key, cnt) in [(a, c), (b, m - c), (river[(pi * 7 + 13) % 101], 0usize)] {
            if key == b && m == c { continue; }
            let got = h.density(&key);
            run.evaluations += 1;
            run.line(&format!("dens {} {}", hist_str(&h), code(&key)), &fl(got));
            run.spec_checked += 1;
            let want = cnt as f64 / m as f64;
            if (got as f64 - want).abs() > 1e-6 * want + 1e-12 {
                run.fail("density-not-count-over-mass", &format!("count {cnt} of mass {m}"), &format!("{want}"), &format!("{got}"));
            }
        }
        run.count("density-probe");
    }
    // ---- populous layers
    let heavy = |rng: &mut Rng, center: usize, spread: usize, samples: usize| -> Histogram {
        // `samples` draws around `center`, via Histogram::from(Vec<Abstraction>) and absorb
        let mut h = gen_hist(rng, &river, center, spread, samples.min(4000));
        let mut left = samples.saturating_sub(4000);
        while left > 0 {
            let part = gen_hist(rng, &river, center, spread, left.min(4000));
            h.absorb(&part);
            left = left.saturating_sub(4000);
        }
        h
    };
    for r in 0..(if deep { 4 } else { 2 }) {
        let kc = 3;
        let n = 40 + 10 * r;
        let centers = [15usize, 50, 85];
        let per_point = if r % 2 == 0 { 6_000 } else { 12_000 }; // 40 * 6000 / 3 = 80k, 50 * 12000 / 3 = 200k per centroid
        let points: Vec<Histogram> = (0..n).map(|i| {
            let c = (centers[i % 3] as i64 + rng.range(-8, 8)).clamp(0, 100) as usize;
            let extra = rng.below(500) as usize;
            heavy(rng, c, 6, per_point + extra)
        }).collect();
        let mut current: Vec<Histogram> = (0..kc).map(|j| points[j].clone()).collect();
        for t in 0..3 {
            let layer = Layer::verif_new(Street::Turn, Metric::default(), points.clone(), current.clone());
            let biggest = current.iter().map(|c| c.verif_mass()).max().unwrap_or(0);
            run.count(&format!("populous-step-largest-centroid={}", if biggest >= 131_072 { ">=131072" } else if biggest >= 65_536 { ">=65536" } else { "<65536" }));
            let case = Case {
                street: Street::Turn, metric_raw: BTreeMap::new(), points: points.clone(), kmeans: current.clone(),
                tag: format!("Turn+populous-run{r}-step{t}"), vdist: true,
            };
            match exercise(run, &case, &layer) {
                Some(cs) if cs.iter().take(kc).all(|c| c.verif_mass() > 0) => current = cs.into_iter().take(kc).collect(),
                _ => break,
            }
        }
    }
}

/// `Lookup::projections()` — the real path by which `Layer::grow` obtains a layer's points — on a complete
/// synthetic flop lookup (deterministic bucket per flop class), under the multi-threaded rayon pool:
/// point i must be the histogram of the i-th class of IsomorphismIterator::from(Street::Pref), computed
/// here sequentially from Observation::children + the same lookup.
fn projection_suite(run: &mut Run, deep: bool) {
    use robopoker::clustering::lookup::Lookup;
    const K: usize = 24;
    let bucket = |iso: &Isomorphism| -> usize {
        let mut x = i64::from(*iso) as u64;
        x = (x ^ (x >> 30)).wrapping_mul(0xBF58476D1CE4E5B9);
        x = (x ^ (x >> 27)).wrapping_mul(0x94D049BB133111EB);
        ((x ^ (x >> 31)) % K as u64) as usize
    };
    let mut flop = BTreeMap::<Isomorphism, Abstraction>::new();
    let mut truth: Vec<BTreeMap<Abstraction, usize>> = vec![];
    let classes: Vec<Isomorphism> = IsomorphismIterator::from(Street::Pref).collect();
    for pref in &classes {
        let mut counts = BTreeMap::new();
        for child in pref.0.children() {
            let iso = Isomorphism::from(child);
            let ab = Abstraction::from((Street::Flop, bucket(&iso)));
            flop.insert(iso, ab);
            *counts.entry(ab).or_insert(0usize) += 1;
        }
        truth.push(counts);
    }
    run.spec_checked += 1;
    if classes.len() != Street::Pref.n_isomorphisms() || flop.len() != Street::Flop.n_isomorphisms() {
        run.fail("projection-setup", "synthetic flop lookup", &format!("{} classes, {} flop entries", Street::Pref.n_isomorphisms(), Street::Flop.n_isomorphisms()), &format!("{} / {}", classes.len(), flop.len()));
    }
    let lookup = Lookup::from(flop);
    let mut op = format!("proj {}", truth.len());
    for t in &truth {
        let _ = write!(op, " {} {}", t.len(), t.values().sum::<usize>());
        for (a, c) in t { let _ = write!(op, " {} {}", code(a), c); }
    }
    for round in 0..(if deep { 4 } else { 2 }) {
        let points = catch(AssertUnwindSafe(|| lookup.projections()));
        run.evaluations += truth.len() as u64;
        let points = match points {
            Some(p) => p,
            None => { run.line(&op, "panic"); run.fail("projection-panics", "Lookup::projections", "points", "panic"); continue; }
        };
        let mut ans = format!("{}", points.len());
        for p in &points { ans.push_str(&hist_ans(p)); }
        run.line(&op, &ans);
        run.distinct(&(op.len(), round));
        run.spec_checked += 1;
        if points.len() != truth.len() {
            run.fail("projection-count", "degenerate metrics through Layer::metric / Metric::from (all centroids identical, K = 2 identical, two groups of identical centroids, same shape at different sample counts, single-bucket learned centroids; all-zero maps); the preflop layer end to end through Table (Layer::grow(Pref).save() on a synthetic flop lookup + metric in ./pgcopy; labels, stored centroids and metric read back and judged against independently computed class histograms); Lookup::projections on a complete flop lookup", &format!("{} points", truth.len()), &format!("{}", points.len()));
        }
        let mut misplaced = vec![];
        for (i, (p, t)) in points.iter().zip(truth.iter()).enumerate() {
            run.spec_checked += 1;
            let got: BTreeMap<Abstraction, usize> = p.verif_counts().into_iter().collect();
            if &got != t || p.verif_mass() != t.values().sum::<usize>() { misplaced.push(i); }
        }
        if let Some(&i) = misplaced.first() {
            // which class's histogram sits at position i instead?
            let got: BTreeMap<Abstraction, usize> = points[i].verif_counts().into_iter().collect();
            let whose = truth.iter().position(|t| *t == got);
            run.fail("projection-point-not-at-its-isomorphism-position",
                &format!("Lookup::projections (round {round}), synthetic flop lookup bucket = splitmix(iso) mod {K}: {} of {} points misplaced; first: position {i} = class {}", misplaced.len(), points.len(), classes[i].0),
                &format!("histogram of class {i}: {:?}", truth[i].iter().map(|(a, c)| (a.index(), *c)).collect::<Vec<_>>()),
                &format!("histogram of class {:?}: {:?}", whose.map(|w| format!("{w} ({})", classes[w].0)), got.iter().map(|(a, c)| (a.index(), *c)).collect::<Vec<_>>()));
        }
        run.count("projections-preflop-from-full-flop-lookup");
    }
    run.notes.push("Lookup::projections exercised for preflop <- complete synthetic flop lookup (1,286,792 entries); flop <- turn would need a complete 13,960,050-entry turn lookup and is not exercised".into());
}

/// the whole preflop layer, end to end, through the public `Table` interface exactly as `Layer::learn()`
/// runs it: a complete synthetic flop lookup and a flop metric in ./pgcopy, `Layer::grow(Pref).save()`
/// (projections -> init -> lookup / decomp / metric), tables read back and judged independently:
/// class i must be labelled with the bucket whose stored centroid is (nearest to = identical with) the
/// histogram of class i, computed here from Observation::children + the same flop lookup.
fn preflop_chain_suite(run: &mut Run) {
    use robopoker::clustering::lookup::Lookup;
    use robopoker::save::upload::Table;
    const B: usize = 8;
    let mix = |x: i64| -> u64 {
        let mut x = x as u64;
        x = (x ^ (x >> 30)).wrapping_mul(0xBF58476D1CE4E5B9);
        x = (x ^ (x >> 27)).wrapping_mul(0x94D049BB133111EB);
        x ^ (x >> 31)
    };
    let flop = |b: usize| Abstraction::from((Street::Flop, b));
    let classes: Vec<Isomorphism> = IsomorphismIterator::from(Street::Pref).collect();
    let n = classes.len();
    // bucket 0 with probability p/n for the p-th preflop class: all 169 histograms differ
    let mut map = BTreeMap::<Isomorphism, Abstraction>::new();
    for (p, pref) in classes.iter().enumerate() {
        for child in pref.0.children() {
            let iso = Isomorphism::from(child);
            map.entry(iso).or_insert_with(|| {
                let h = mix(i64::from(iso));
                flop(if h % (n as u64) < (p as u64) { 0 } else { 1 + ((h >> 24) % (B as u64 - 1)) as usize })
            });
        }
    }
    let truth: Vec<BTreeMap<Abstraction, usize>> = classes.iter().map(|pref| {
        let mut c = BTreeMap::new();
        for child in pref.0.children() { *c.entry(map[&Isomorphism::from(child)]).or_insert(0usize) += 1; }
        c
    }).collect();
    let mut distinct = true;
    for i in 0..n { for j in 0..i { if truth[i] == truth[j] { distinct = false; } } }
    if !distinct { run.notes.push("preflop chain: two synthetic preflop histograms coincide; nearest centroid not unique".into()); }
    let mut ground = BTreeMap::<Pair, f32>::new();
    for a in 0..B { for b in 0..a { ground.insert(Pair::from((&flop(a), &flop(b))), (a - b) as f32); } }
    let ground_metric = Metric::from(ground.clone());
    // ---- run the real chain in ./pgcopy of the run directory
    let _ = std::fs::remove_dir_all("pgcopy");
    std::fs::create_dir_all("pgcopy").expect("pgcopy dir");
    let done = catch(AssertUnwindSafe(|| {
        Lookup::from(map).save();
        Metric::from(ground).save(); // 28 pairs: filed under the river name
        std::fs::rename("pgcopy/metric.river", "pgcopy/metric.flop").expect("rename metric");
        Layer::grow(Street::Pref).save();
    }));
    run.evaluations += 1;
    let mut op = format!("prefchain {n}");
    for t in &truth {
        let _ = write!(op, " {} {}", t.len(), t.values().sum::<usize>());
        for (a, c) in t { let _ = write!(op, " {} {}", code(a), c); }
    }
    if done.is_none() {
        run.line(&op, "panic");
        run.fail("preflop-chain-panics", "Layer::grow(Street::Pref).save() on a synthetic flop lookup + metric", "three tables", "panic");
        let _ = std::fs::remove_dir_all("pgcopy");
        return;
    }
    // ---- read back
    let tables = catch(AssertUnwindSafe(|| {
        let labels = BTreeMap::<Isomorphism, Abstraction>::from(Lookup::load(Street::Pref));
        let metric = Metric::load(Street::Pref).verif_entries();
        let bytes = std::fs::read("pgcopy/transitions.preflop").expect("transitions.preflop");
        let mut rows: Vec<(i64, i64, f32)> = vec![];
        let mut at = 19;
        loop {
            let k = u16::from_be_bytes([bytes[at], bytes[at + 1]]);
            at += 2;
            if k == 0xFFFF { break; }
            assert!(k == 3);
            let f = |at: usize, len: usize| -> &[u8] { &bytes[at + 4..at + 4 + len] };
            let prev = i64::from_be_bytes(f(at, 8).try_into().unwrap());
            let next = i64::from_be_bytes(f(at + 12, 8).try_into().unwrap());
            let dx = f32::from_be_bytes(f(at + 24, 4).try_into().unwrap());
            at += 32;
            rows.push((prev, next, dx));
        }
        (labels, metric, rows)
    }));
    let _ = std::fs::remove_dir_all("pgcopy");
    let (labels, metric, rows) = match tables {
        Some(t) => t,
        None => { run.line(&op, "unreadable"); run.fail("preflop-chain-tables-unreadable", "pgcopy/{isomorphism,metric,transitions}.preflop", "three readable tables", "panic while reading"); return; }
    };
    let mut centroids = BTreeMap::<i64, BTreeMap<u128, f32>>::new();
    for (prev, next, dx) in &rows { centroids.entry(*prev).or_default().insert(code(&Abstraction::from(*next)), *dx); }
    // ---- correspondence line: per class, its label and the distribution stored under that label
    let mut ans = String::new();
    for iso in &classes {
        match labels.get(iso) {
            None => ans.push_str(" unlabelled"),
            Some(l) => match centroids.get(&i64::from(*l)) {
                None => { let _ = write!(ans, " {} missing", code(l)); }
                Some(c) => { let _ = write!(ans, " {} {}", code(l), c.len()); for (k, v) in c { let _ = write!(ans, " {} {}", k, fl(*v)); } }
            },
        }
    }
    run.line(&op, &ans);
    run.distinct(&op.len());
    // ---- oracle
    run.spec_checked += 1;
    if labels.len() != n || centroids.len() != n {
        run.fail("preflop-chain-table-size", "preflop layer", &format!("{n} labelled classes, {n} centroids"), &format!("{} / {}", labels.len(), centroids.len()));
    }
    let dist = |c: &BTreeMap<u128, f32>, t: &BTreeMap<Abstraction, usize>| -> f64 {
        let m = t.values().sum::<usize>() as f64;
        let mut keys: BTreeSet<u128> = c.keys().cloned().collect();
        keys.extend(t.keys().map(code));
        keys.iter().map(|k| {
            let want = t.iter().find(|(a, _)| code(a) == *k).map_or(0.0, |(_, v)| *v as f64 / m);
            (c.get(k).copied().unwrap_or(0.0) as f64 - want).abs()
        }).sum()
    };
    let mut wrong = vec![];
    let mut used = BTreeSet::new();
    for (i, iso) in classes.iter().enumerate() {
        run.spec_checked += 1;
        let Some(l) = labels.get(iso) else { wrong.push((i, "no label".to_string())); continue; };
        used.insert(i64::from(*l));
        let Some(stored) = centroids.get(&i64::from(*l)) else { wrong.push((i, format!("label {l} has no centroid"))); continue; };
        let own = dist(stored, &truth[i]);
        let (nearest, least) = centroids.iter().map(|(k, c)| (*k, dist(c, &truth[i]))).min_by(|a, b| a.1.partial_cmp(&b.1).unwrap()).unwrap();
        if own > 1e-5 || (distinct && nearest != i64::from(*l) && least + 1e-6 < own) {
            wrong.push((i, format!("labelled {l}, whose centroid is {own:.5} (L1) from the class's histogram; centroid under {} is {least:.6} away", Abstraction::from(nearest))));
        }
    }
    if let Some((i, why)) = wrong.first() {
        run.fail("preflop-class-not-labelled-with-its-nearest-centroid",
            &format!("Layer::grow(Pref).save() on synthetic flop lookup (8 buckets) + line metric: {} of {n} classes wrong; first: class {i} = {}", wrong.len(), classes[*i].0),
            "the bucket whose stored centroid is the class's own histogram (distance 0)", why);
    }
    if used.len() != n {
        run.fail("preflop-labels-not-one-bucket-per-class", "preflop lookup", &format!("{n} distinct buckets"), &format!("{}", used.len()));
    }
    // ---- metric: one entry per unordered pair, >= 0, max 1, and (sampled) the symmetrised distance of the right pair
    run.spec_checked += 1;
    let want_pairs = n * (n - 1) / 2;
    let mx = metric.iter().map(|e| e.1).fold(0f32, f32::max);
    if metric.len() != want_pairs || (mx - 1.0).abs() > 1e-6 || metric.iter().any(|e| !(e.1 >= 0.0)) {
        run.fail("preflop-metric-shape", "metric.preflop", &format!("{want_pairs} entries in [0,1] with max 1"), &format!("{} entries, max {mx}", metric.len()));
    }
    let emap: BTreeMap<Pair, f32> = metric.iter().cloned().collect();
    let hist = |t: &BTreeMap<Abstraction, usize>| { let mut h = Histogram::default(); for (a, c) in t { h.set(*a, *c); } h };
    let mut reference: Option<(f64, f64)> = None;
    for s in 0..150usize {
        let (i, j) = ((s * 37 + 5) % n, (s * 101 + 11) % n);
        if i == j { continue; }
        let (hi, hj) = (hist(&truth[i]), hist(&truth[j]));
        let raw = (ground_metric.emd(&hi, &hj) as f64 + ground_metric.emd(&hj, &hi) as f64) / 2.0;
        let key = Pair::from((&Abstraction::from((Street::Pref, i)), &Abstraction::from((Street::Pref, j))));
        run.spec_checked += 1;
        match emap.get(&key) {
            None => run.fail("preflop-metric-missing-pair", &format!("pair ({i},{j})"), "an entry", "missing"),
            Some(e) => match reference {
                None => if raw > 1e-3 && *e > 1e-3 { reference = Some((raw, *e as f64)); },
                Some((r0, e0)) => if (*e as f64 * r0 - e0 * raw).abs() > 1e-4 * (e0 * raw).max(1e-3) {
                    run.fail("preflop-metric-value-of-wrong-pair", &format!("metric.preflop entry of buckets ({i},{j})"), &format!("proportional to the symmetrised emd of classes {i},{j}: {}", raw * e0 / r0), &format!("{e}"));
                },
            },
        }
    }
    run.count("preflop-layer-end-to-end");
}

fn main() {
    // the clustering code runs on rayon's global pool: make sure it has several workers
    if std::env::var_os("RAYON_NUM_THREADS").is_none() {
        std::env::set_var("RAYON_NUM_THREADS", "8");
    }
    let a = args();
    let mut rng = Rng::new(a.seed);
    let mut run = Run::new(&a.out);
    quiet_panics();
    let deep = a.thorough();

    // ---- pair keys of the real cluster counts are collision-free (and never the diagonal key 0)
    for street in [Street::Pref, Street::Flop, Street::Turn] {
        let k = street.k();
        let mut keys = BTreeSet::new();
        let mut clash = None;
        for i in 0..k {
            for j in 0..i {
                let p = Pair::from((&Abstraction::from((street, i)), &Abstraction::from((street, j))));
                let key = i64::from(p);
                if key == 0 || !keys.insert(key) {
                    clash = Some((i, j));
                }
            }
        }
        run.spec_checked += 1;
        run.evaluations += (k * (k - 1) / 2) as u64;
        if let Some((i, j)) = clash {
            run.fail("pair-key-collision", &format!("{street:?} k={k}"), "distinct non-zero keys", &format!("pair ({i},{j}) collides"));
        }
        run.count_n(&format!("pair-keys-{street:?}"), (k * (k - 1) / 2) as u64);
    }

    let river: Vec<Abstraction> = (0..=100).map(|i| Abstraction::from((Street::Rive, i))).collect();
    let turn_abs: Vec<Abstraction> = (0..Street::Turn.k()).map(|i| Abstraction::from((Street::Turn, i))).collect();
    let flop_abs: Vec<Abstraction> = (0..Street::Flop.k()).map(|i| Abstraction::from((Street::Flop, i))).collect();

    // a metric over all pairs of a universe of learned abstractions (points on a line + jitter)
    let mut line_metric = |rng: &mut Rng, uni: &[Abstraction]| -> BTreeMap<Pair, f32> {
        let pos: Vec<f64> = (0..uni.len()).map(|i| i as f64 + 0.3 * rng.unit()).collect();
        let mut m = BTreeMap::new();
        for i in 0..uni.len() {
            for j in 0..i {
                m.insert(Pair::from((&uni[i], &uni[j])), (pos[i] - pos[j]).abs() as f32);
            }
        }
        m
    };

    let mut cases: Vec<Case> = vec![];
    let n_turn = if deep { 60 } else { 14 };
    let n_flop = if deep { 20 } else { 4 };
    let n_pref = if deep { 8 } else { 2 };
    for ci in 0..(n_turn + n_flop + n_pref) {
        let (street, universe, metric_raw): (Street, &Vec<Abstraction>, BTreeMap<Pair, f32>) = if ci < n_turn {
            (Street::Turn, &river, BTreeMap::new())
        } else if ci < n_turn + n_flop {
            let sub: Vec<Abstraction> = turn_abs[..24].to_vec();
            let m = line_metric(&mut rng, &sub);
            (Street::Flop, &turn_abs, m)
        } else {
            let sub: Vec<Abstraction> = flop_abs[..24].to_vec();
            let m = line_metric(&mut rng, &sub);
            (Street::Pref, &flop_abs, m)
        };
        let learned = street != Street::Turn;
        let usable = if learned { 24 } else { universe.len() };
        let uni = &universe[..usable];
        let n = match ci % 5 {
            0 => 10 + rng.below(20) as usize,
            1 => 30 + rng.below(70) as usize,
            2 => 100 + rng.below(150) as usize,
            3 => if learned { 60 } else { 250 + rng.below(251) as usize },
            _ => 10 + rng.below(if learned { 80 } else { 490 }) as usize,
        };
        let n = if learned && !deep { n.min(80) } else if learned { n.min(200) } else { n };
        let kc = match ci % 7 {
            0 => 2,
            1 => 2 + rng.below(15) as usize,
            2 => 16,
            3 => if learned { 8 } else { 144 },
            4 => 1,
            5 => if learned { 12 } else { 17 + rng.below(127) as usize },
            _ => 3 + rng.below(10) as usize,
        };
        let n_modes = 2 + rng.below(6) as usize;
        let modes: Vec<usize> = (0..n_modes).map(|_| rng.below(usable as u64) as usize).collect();
        let spread = 1 + rng.below(if learned { 3 } else { 12 }) as usize;
        let mut points: Vec<Histogram> = (0..n)
            .map(|_| {
                let c = modes[rng.below(n_modes as u64) as usize];
                let samples = if learned { 5 + rng.below(30) as usize } else { 46 };
                gen_hist(&mut rng, uni, c, spread, samples)
            })
            .collect();
        // exact duplicates among the points
        for _ in 0..n / 10 {
            let (i, j) = (rng.below(n as u64) as usize, rng.below(n as u64) as usize);
            points[i] = points[j].clone();
        }
        // centroids: copies of points, fresh histograms, duplicates (ties), optionally an empty one
        let mut kmeans: Vec<Histogram> = (0..kc)
            .map(|_| {
                if rng.chance(2, 3) {
                    points[rng.below(n as u64) as usize].clone()
                } else {
                    let c = modes[rng.below(n_modes as u64) as usize];
                    gen_hist(&mut rng, uni, c, spread + 2, if learned { 40 } else { 200 })
                }
            })
            .collect();
        let mut tag = format!("{street:?}");
        if kc >= 3 && rng.chance(1, 2) {
            // tie: the same centroid twice, at non-adjacent positions
            let i = rng.below(kc as u64) as usize;
            let j = (i + 1 + rng.below(kc as u64 - 1) as usize) % kc;
            kmeans[j] = kmeans[i].clone();
            tag.push_str("+tied-centroids");
        }
        if !learned && ci % 9 == 4 && kc >= 2 {
            kmeans[rng.below(kc as u64) as usize] = Histogram::default();
            tag.push_str("+empty-centroid");
        }
        if !learned && ci % 13 == 7 {
            // more centroids than street.k(): the neighbor index can exceed the allocation
            while kmeans.len() < Street::Turn.k() + 6 {
                let c = modes[rng.below(n_modes as u64) as usize];
                kmeans.push(gen_hist(&mut rng, uni, c, spread + 2, 200));
            }
            tag.push_str("+too-many-centroids");
        }
        cases.push(Case { street, metric_raw, points, kmeans, tag, vdist: false });
    }


    // ---- adversarial near-ties (<= 1 %): a point-mass point, a point-mass centroid at another bucket and
    // a spread centroid between 1.00x and 1.01x of that distance, in both index orders
    {
        let pm = |b: usize, m: usize| Histogram::from(vec![river[b]; m]);
        for (ti, &(a, gap, shift)) in [(0usize, 30usize, 6usize), (100, 40, 9), (50, 25, 5), (0, 100, 30), (10, 60, 20), (80, 20, 4)].iter().enumerate() {
            let b = if a + gap <= 100 { a + gap } else { a - gap };
            let far = if b > a { (b + shift).min(100) } else { b.saturating_sub(shift) };
            // spread centroid: 45 of 46 samples at b, one a little further away from a
            let mut v = vec![river[b]; 45];
            v.push(river[far]);
            let spread = Histogram::from(v);
            let point_mass = pm(b, 46);
            let other = gen_hist(&mut rng, &river, (a + 50) % 101, 5, 46);
            let mut points = vec![pm(a, 46), pm(a, 1), pm(b, 46), spread.clone()];
            for _ in 0..8 { let c = rng.below(101) as usize; points.push(gen_hist(&mut rng, &river, c, 6, 46)); }
            let kmeans = if ti % 2 == 0 { vec![spread, point_mass, other] } else { vec![other, point_mass, spread] };
            cases.push(Case { street: Street::Turn, metric_raw: BTreeMap::new(), points, kmeans, tag: "Turn+near-tie-point-mass".into(), vdist: true });
        }
    }

    // ---- degenerate metrics through the real Layer::metric / Metric::from: every pairwise distance 0, K = 2 with
    // identical centroids, two groups of identical centroids (zero and positive entries), the same shape at
    // different sample counts, single-bucket learned histograms
    {
        let shape = |scale: usize| -> Histogram {
            let sup: Vec<Abstraction> = [20usize, 21, 22, 40].iter().map(|&b| river[b]).collect();
            let mut v = vec![];
            for (a, c) in sup.iter().zip([5usize, 3, 2, 1].iter()) { for _ in 0..c * scale { v.push(*a); } }
            Histogram::from(v)
        };
        let other = gen_hist(&mut rng, &river, 70, 5, 46);
        let some_points: Vec<Histogram> = (0..12).map(|i| gen_hist(&mut rng, &river, 10 + 7 * i, 4, 46)).collect();
        let mut push = |tag: &str, points: Vec<Histogram>, kmeans: Vec<Histogram>| {
            cases.push(Case { street: Street::Turn, metric_raw: BTreeMap::new(), points, kmeans, tag: format!("Turn+{tag}"), vdist: false });
        };
        push("all-centroids-identical", some_points.clone(), vec![shape(1); 5]);
        push("two-identical-centroids", some_points.clone(), vec![shape(1); 2]);
        push("same-shape-different-sample-counts", some_points.clone(), vec![shape(1), shape(2), shape(4), shape(46)]);
        push("two-groups-of-identical-centroids", some_points.clone(), vec![shape(1), other.clone(), shape(1), other.clone(), shape(3)]);
        push("all-points-identical", vec![shape(1); 14], vec![shape(1); 3]);
        // learned: single-bucket histograms on the same bucket (Sinkhorn cost exactly 0), and two groups
        let sub: Vec<Abstraction> = turn_abs[..24].to_vec();
        let m = line_metric(&mut rng, &sub);
        let single = |b: usize, c: usize| Histogram::from(vec![turn_abs[b]; c]);
        let lp: Vec<Histogram> = (0..10).map(|i| gen_hist(&mut rng, &turn_abs[..24], 2 * i, 2, 20)).collect();
        cases.push(Case { street: Street::Flop, metric_raw: m.clone(), points: lp.clone(), kmeans: vec![single(3, 10), single(3, 25), single(3, 1)], tag: "Flop+single-bucket-identical-centroids".into(), vdist: false });
        cases.push(Case { street: Street::Flop, metric_raw: m.clone(), points: lp.clone(), kmeans: vec![single(3, 10), single(17, 10), single(3, 7), single(17, 2)], tag: "Flop+two-groups-of-single-bucket-centroids".into(), vdist: false });
        cases.push(Case { street: Street::Flop, metric_raw: m, points: lp, kmeans: vec![single(5, 4), single(5, 4)], tag: "Flop+two-identical-centroids".into(), vdist: false });
    }
    for case in &cases {
        let layer = layer_of(case);
        exercise(&mut run, case, &layer);
    }
    // ---- Metric::from directly: all values 0, one positive among zeros, a single pair of value 0, all values tiny
    for (name, vals) in [("all-zero", vec![0f32; 6]), ("one-positive", vec![0.0, 0.0, 2.5, 0.0, 0.0, 0.0]), ("single-zero-pair", vec![0f32]),
        // near-duplicate centroids: every distance positive but far below f32::EPSILON; the maximum is still scaled to one
        ("all-tiny", vec![1e-9, 2e-9, 3e-9, 1.5e-9, 2.5e-9, 0.5e-9]), ("all-subnormal-scale", vec![3e-38, 1e-38, 2e-38, 2.5e-38, 1.5e-38, 0.7e-38]), ("single-tiny-pair", vec![4e-12f32])] {
        let k = if vals.len() == 1 { 2 } else { 4 };
        let mut map = BTreeMap::new();
        let mut it = vals.iter();
        for i in 0..k { for j in 0..i { map.insert(Pair::from((&turn_abs[i], &turn_abs[j])), *it.next().unwrap()); } }
        let m = Metric::from(map);
        run.evaluations += 1;
        run.spec_checked += 1;
        let es = m.verif_entries();
        let positive = vals.iter().any(|v| *v > 0.0);
        let mx = es.iter().map(|e| e.1).fold(0f32, f32::max);
        if es.len() != vals.len() || es.iter().any(|e| !(e.1.is_finite() && e.1 >= 0.0 && e.1 <= 1.0)) || (positive && mx != 1.0) || (!positive && es.iter().any(|e| e.1 != 0.0)) {
            run.fail("metric-from-degenerate", &format!("Metric::from({name}: {vals:?})"), "finite entries in [0,1], max 1 if some value is positive, all 0 otherwise", &format!("{:?}", es.iter().map(|e| e.1).collect::<Vec<_>>()));
        }
        run.count("metric-from-degenerate");
    }
    multistep_suite(&mut run, &mut rng, deep);
    populous_suite(&mut run, &mut rng, deep);
    projection_suite(&mut run, deep);
    preflop_chain_suite(&mut run);
    run.rule = format!(
        "Lookup::projections on a complete synthetic flop lookup under an 8-thread pool, twice, every preflop point compared with the independently computed histogram of its class; populous layers (centroids beyond 65,536 and 131,072 samples, 3 steps, f64 oracle at every step) and density probes at masses around 2^16, 2^24, 2^32; multi-step runs on one thread (re-seeded and Lloyd, >= 5 steps, centroids of every step at the addresses of the step before, equal masses and support sizes) with the nearest-centroid oracle recomputed from scratch in f64 at every step; near-tie layers (point-mass point, point-mass centroid, spread centroid within 1 %); {} synthetic layers: Turn (points = equity histograms over the 101 river buckets, emd = Equity::variation, 1..150 centroids incl. 144), Flop and Pref (points over 24 learned abstractions with a line metric, emd = Sinkhorn, 1..16 centroids); 10..500 points with duplicated points, duplicated centroids (ties), an empty centroid (NaN distance), more centroids than street.k(); per layer every point's neighborhood, one next(), lookup() (Flop/Turn, zipped with the real IsomorphismIterator) and metric(); pair keys of the real cluster counts 169/128/144 exhaustively. distinct = distinct op lines",
        cases.len());
    run.finish();
}
