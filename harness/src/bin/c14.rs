// C14 — Deck::draw for a forced uniform index (hook H1/H3) vs the Lean model `drawAt`,
// plus the search oracle: i-th lowest card, bijection, removal, and the un-overridden
// draw's support/frequencies on small decks (6-sigma).
#[path = "../gamewalk.rs"]
mod gamewalk;
use robopoker::cards::deck::Deck;
use robopoker::cards::hand::Hand;
use robopoker::gameplay::action::Action;
use robopoker::gameplay::ply::Turn;
use rpharness::*;

fn game_history(run: &mut Run, rng: &mut Rng, deals: &[gamewalk::Deal], full: u64, h: usize) {
    use gamewalk::*;
        let deal = &deals[h % deals.len()];
        let style = 1 + (h / deals.len()) as u64 % 2 * 3; // passive lines reach the river, mixed with uniform ones
        let (hist, states, issues) = random_history_checked(rng, deal, style);
        for (class, input, expected, got) in &issues {
            run.fail(class, input, expected, got);
        }
        run.evaluations += states.len() as u64;
        let name = format!("{} {} | {}", deal.h0, deal.h1, hist_tok(&hist));
        run.line(&format!("game {name}"), &states.iter().map(state_line).collect::<Vec<_>>().join(" ; "));
        for (i, g) in states.iter().enumerate() {
            let at = format!("{} {} | {}", deal.h0, deal.h1, hist_tok(&hist[..i]));
            let seats = g.verif_seats();
            let (h0, h1, b) = (bits(Hand::from(seats[0].4)), bits(Hand::from(seats[1].4)), board_bits(g));
            run.spec_checked += 1;
            if h0 & h1 != 0 || h0 & b != 0 || h1 & b != 0 || h0 != deal.h0 || h1 != deal.h1 {
                run.fail("cards-in-play-overlap", &format!("deck {at}"), "holes and board pairwise disjoint, holes unchanged", &format!("holes {h0} {h1} board {b}"));
            }
            if ![0, 3, 4, 5].contains(&b.count_ones()) || (h0 | h1 | b) & !full != 0 {
                run.fail("board-size", &format!("deck {at}"), "0/3/4/5 board cards of the deck", &format!("board {b}"));
            }
            let gg = *g;
            let deck = catch(move || bits(Hand::from(gg.deck())));
            // same question with TRACE logging on, and (1 state in 32) from a fresh thread
            let deck_traced = ambient::with_trace(|| catch(move || bits(Hand::from(gg.deck()))));
            run.spec_checked += 1;
            if deck_traced != deck {
                run.fail("deck-depends-on-logging", &format!("deck {at}"), &format!("{deck:?}"), &format!("{deck_traced:?}"));
            }
            if run.evaluations % 32 == 0 {
                let deck_thread = ambient::in_thread(move || catch(move || bits(Hand::from(gg.deck())))).flatten();
                run.spec_checked += 1;
                if deck_thread != deck {
                    run.fail("deck-depends-on-thread", &format!("deck {at}"), &format!("{deck:?}"), &format!("{deck_thread:?}"));
                }
            }
            match deck {
                None => run.fail("deck-panics", &format!("deck {at}"), "a deck", "panic"),
                Some(d) => {
                    if d != full & !(h0 | h1 | b) {
                        run.fail("deck-not-complement", &format!("deck {at}"), &format!("{}", full & !(h0 | h1 | b)), &format!("{d}"));
                    }
                    if !is_shortdeck() && (i == states.len() - 1 || try_turn(g) == Some(Turn::Chance)) {
                        run.line(&format!("deck {at}"), &format!("{d} {b} {h0} {h1}"));
                    }
                    if try_turn(g) == Some(Turn::Chance) {
                        // the engine's offers: never a card in play, right size, accepted
                        let mut offers = vec![];
                        for _ in 0..4 {
                            let (gg, mut r2) = (*g, rng.fork());
                            let o = match catch(move || offered(&gg, &mut r2)) {
                                Some(o) => o,
                                None => {
                                    run.fail("offered-draw-panics", &format!("deck {at}"), "cards", "panic");
                                    continue;
                                }
                            };
                            let ob = bits(o);
                            run.evaluations += 1;
                            run.spec_checked += 1;
                            let want = if b == 0 { 3 } else { 1 };
                            if ob & (h0 | h1 | b) != 0 || ob & !d != 0 || ob.count_ones() != want || try_allowed(g, &Action::Draw(o)) != Some(true) {
                                run.fail("offered-draw-in-play", &format!("deck {at}"), &format!("{want} cards of the deck {d}, accepted"), &format!("offer {ob}"));
                            }
                            offers.push(Action::Draw(o));
                            run.distinct(&(b, ob));
                        }
                        // externally supplied deals of the right size that contain one card already in
                        // play: each card of seat 0's hole, each card of seat 1's hole (whoever the
                        // "actor" is at this chance node), each board card - separately. None may be
                        // accepted, none may be applied.
                        let fill = if b == 0 { 2 } else { 0 };
                        let n_good = offers.len();
                        let mut dirty: Vec<(Action, &str)> = vec![];
                        for (set, who) in [(h0, "seat 0's hole card"), (h1, "seat 1's hole card"), (b, "board card")] {
                            for c in 0..52u64 {
                                if set >> c & 1 == 1 {
                                    dirty.push((Action::Draw(hand(1u64 << c | rng.cards(fill, d))), who));
                                }
                            }
                        }
                        let actor = (g.verif_dealer() + g.verif_ticker()) % 2;
                        for (c, who) in &dirty {
                            let (gg, cc) = (*g, *c);
                            run.evaluations += 1;
                            run.spec_checked += 2;
                            let ok = catch(move || gg.is_allowed(&cc));
                            if ok != Some(false) {
                                run.fail("accepted-draw-contains-card-in-play", &format!("allowed {at} | {}", act_tok(c)),
                                    &format!("0 (the deal contains a {who}; nominal actor at this chance node is seat {actor})"), &format!("{ok:?}"));
                            }
                            if let Some(child) = catch(move || gg.apply(cc)) {
                                run.fail("draw-in-play-applied", &format!("game {at} {}", act_tok(c)), "panic", &safe_state_line(&child));
                            }
                            offers.push(*c);
                            run.count(&format!("dirty-deal:{}:actor{}", who.replace(' ', "-").replace('\'', ""), actor));
                        }
                        // every ACCEPTED externally supplied deal must leave holes and board disjoint
                        for c in offers.iter().take(n_good).chain(std::iter::once(&Action::Draw(hand(rng.cards(if b == 0 { 3 } else { 1 }, d))))) {
                            let (gg, cc) = (*g, *c);
                            if catch(move || gg.is_allowed(&cc)) == Some(true) {
                                run.spec_checked += 1;
                                match catch(move || { let ch = gg.apply(cc); let s = ch.verif_seats(); (bits(Hand::from(s[0].4)), bits(Hand::from(s[1].4)), bits(Hand::from(ch.board()))) }) {
                                    None => run.fail("accepted-draw-panics", &format!("game {at} {}", act_tok(c)), "a state", "panic"),
                                    Some((x0, x1, nb)) => {
                                        if x0 & x1 != 0 || x0 & nb != 0 || x1 & nb != 0 || nb != b | bits(match c { Action::Draw(h) => *h, _ => unreachable!() }) {
                                            run.fail("cards-overlap-after-accepted-draw", &format!("game {at} {}", act_tok(c)), "holes and board pairwise disjoint, board = old board + deal", &format!("holes {x0} {x1} board {nb}"));
                                        }
                                    }
                                }
                            }
                        }
                        let ans: String = offers.iter().map(|c| { let (gg, cc) = (*g, *c); match catch(move || gg.is_allowed(&cc)) { Some(true) => '1', Some(false) => '0', None => 'P' } }).collect();
                        run.line(&format!("allowed {at} | {}", offers.iter().map(act_tok).collect::<Vec<_>>().join(" ")), &ans);
                        run.count(&format!("offers:{}", street_name(g)));
                    }
                }
            }
            run.count(&format!("game-state:{}", street_name(g)));
        }
}

/// dealing half: along random histories of the real Game (with the engine's own offered draws
/// and with forced ones) hole cards and board stay pairwise disjoint, `Game::deck()` is the
/// complement of the cards in play, and every offered draw consists of cards not in play.
/// Oracle written from the property text; the `game` / `deck` / `allowed` lines are replayed by
/// the Lean model (`deck` lines only in the standard-deck build: the model's mask is the 52-card one).
fn game_stream(run: &mut Run, rng: &mut Rng, n_hist: usize) {
    use gamewalk::*;
    let full = bits(hand(Hand::mask()));
    ambient::install();
    let deals = make_deals(rng, 48);
    for h in 0..n_hist {
        let r = std::panic::catch_unwind(std::panic::AssertUnwindSafe(|| game_history(run, rng, &deals, full, h)));
        if r.is_err() {
            log::set_max_level(log::LevelFilter::Off);
            run.fail("engine-panics-outside-catch", &format!("game history #{h} (deal {} {})", deals[h % deals.len()].h0, deals[h % deals.len()].h1), "no panic", "panic");
        }
    }
}

fn ith_lowest(d: u64, i: u32) -> u8 {
    let mut seen = 0;
    for b in 0..64 {
        if d >> b & 1 == 1 {
            if seen == i {
                return b as u8;
            }
            seen += 1;
        }
    }
    255
}

fn main() {
    let a = args();
    let mut rng = Rng::new(a.seed);
    let mut run = Run::new(&a.out);
    quiet_panics();
    let full = u64::from(Hand::from(Hand::mask()));
    let ndecks = if a.thorough() { 20000 } else { 2000 };
    let mut decks = vec![full];
    for k in 1..=52u32 {
        // one deck per size at least
        let n = full.count_ones().min(k) as usize;
        decks.push(rng.cards(n, full));
    }
    for _ in 0..ndecks {
        let n = 1 + rng.below(full.count_ones() as u64) as usize;
        decks.push(rng.cards(n, full));
    }
    run.rule = format!("full deck + one random sub-deck per size 1..52 + {ndecks} random sub-decks of the configured deck, every index i < size through the real Deck::draw with the index forced by the guarded hook; plus {} un-forced draws for the frequency test; a case is non-trivial when the deck has >= 2 cards; distinct by (deck, i)", if a.thorough() { 2_000_000 } else { 400_000 });
    for &d in &decks {
        let n = d.count_ones();
        let mut seen = 0u64;
        for i in 0..n {
            run.evaluations += 1;
            robopoker::verif::set_draw_index(Some(i as u8));
            let res = catch(|| {
                let mut deck = Deck::from(Hand::from(d));
                let c = deck.draw();
                (u8::from(c), u64::from(Hand::from(deck)))
            });
            robopoker::verif::set_draw_index(None);
            let op = format!("drawat {d} {i}");
            match res {
                None => {
                    run.line(&op, "panic");
                    run.fail("draw-panics", &op, "a card", "panic");
                }
                Some((c, rest)) => {
                    run.line(&op, &format!("{c} {rest}"));
                    run.spec_checked += 1;
                    let want = ith_lowest(d, i);
                    if c != want {
                        run.fail("draw-index-not-ith-card", &op, &format!("card {want}"), &format!("card {c}"));
                    }
                    if rest != d & !(1u64 << (c & 63)) || d >> (c & 63) & 1 == 0 {
                        run.fail("draw-does-not-remove-card", &op, &format!("{}", d & !(1u64 << (c & 63))), &format!("{rest}"));
                    }
                    seen |= 1u64 << (c & 63);
                    if n >= 2 {
                        run.distinct(&(d, i));
                    }
                }
            }
            run.count(&format!("decksize={:02}", n));
        }
        run.spec_checked += 1;
        if seen != d {
            run.fail("draw-not-bijective", &format!("deck {d}"), &format!("every card reachable: {d}"), &format!("{seen}"));
        }
    }
    // ---- one kept deck dealt from repeatedly (a dealer outside the engine): hole, hole, flop, turn,
    // river through Deck::hole / Deck::deal on the SAME Deck value; every dealt card must leave
    // the deck, all dealt hands pairwise disjoint; forced raw value r for the model line, and
    // un-forced for the oracle alone
    {
        use robopoker::cards::street::Street;
        let mut cases: Vec<(u64, Option<u8>)> = Vec::new();
        for r in 0..full.count_ones() as u8 { cases.push((full, Some(r))); }
        for _ in 0..(if a.thorough() { 4000 } else { 400 }) {
            let n = 9 + rng.below(full.count_ones() as u64 - 8) as usize;
            cases.push((rng.cards(n, full), Some(rng.below(64) as u8)));
        }
        for n in [0usize, 1, 2, 3, 4, 7, 8] { cases.push((rng.cards(n, full), Some(rng.below(64) as u8))); }
        for _ in 0..(if a.thorough() { 20000 } else { 2000 }) {
            let n = 9 + rng.below(full.count_ones() as u64 - 8) as usize;
            cases.push((if rng.below(2) == 0 { full } else { rng.cards(n, full) }, None));
        }
        for (d, r) in cases {
            run.evaluations += 1;
            robopoker::verif::set_draw_index(r);
            let res = catch(|| {
                let mut deck = Deck::from(Hand::from(d));
                let mut out: Vec<(u64, u64)> = Vec::new(); // (dealt hand, deck afterwards)
                let h = u64::from(Hand::from(deck.hole())); out.push((h, u64::from(Hand::from(deck))));
                let h = u64::from(Hand::from(deck.hole())); out.push((h, u64::from(Hand::from(deck))));
                for street in [Street::Pref, Street::Flop, Street::Turn] {
                    let h = u64::from(deck.deal(street)); out.push((h, u64::from(Hand::from(deck))));
                }
                out
            });
            robopoker::verif::set_draw_index(None);
            let op = match r { Some(r) => format!("dealrun {d} {r}"), None => format!("dealrun-unforced {d}") };
            match res {
                None => {
                    if r.is_some() { run.line(&op, "panic"); }
                    if d.count_ones() >= 9 {
                        run.fail("kept-deck-deal-panics", &op, "nine cards dealt", "panic");
                    }
                }
                Some(out) => {
                    if r.is_some() {
                        run.line(&op, &format!("{} {}", out.iter().map(|x| x.0.to_string()).collect::<Vec<_>>().join(" "), out[4].1));
                    }
                    run.spec_checked += 1;
                    let want = [2u32, 2, 3, 1, 1];
                    let mut before = d;
                    let mut all = 0u64;
                    for (k, (h, after)) in out.iter().enumerate() {
                        let what = ["first hole", "second hole", "flop", "turn", "river"][k];
                        if h.count_ones() != want[k] || h & !before != 0 {
                            run.fail("kept-deck-deals-card-not-in-deck", &format!("{op} ({what})"), &format!("{} cards of the remaining deck {before}", want[k]), &format!("dealt {h}"));
                        }
                        if *after != before & !h {
                            run.fail("kept-deck-deal-does-not-remove", &format!("{op} ({what})"), &format!("deck after = {} (deck before {before} without the dealt {h})", before & !h), &format!("{after}"));
                        }
                        if all & h != 0 {
                            run.fail("kept-deck-deals-card-twice", &format!("{op} ({what})"), "no card dealt earlier in this hand", &format!("dealt {h}, earlier {all}"));
                        }
                        all |= h;
                        before = before & !h; // what the deck must be, whatever the code reports
                    }
                    if d.count_ones() >= 9 { run.distinct(&(d, r, 9u8)); }
                }
            }
            run.count(if r.is_some() { "kept-deck-forced" } else { "kept-deck-unforced" });
        }
    }
    // ---- Game::deal() on a game that already holds cards (the next hand dealt on the same value):
    // the new holes come from a FULL deck — with the raw value forced the model predicts them; un-forced,
    // a card of the previous hand must come back with probability 1 - C(n-4,4)/C(n,4)
    {
        use robopoker::gameplay::game::Game;
        let holes = |g: &Game| -> (u64, u64) {
            let s = g.verif_seats();
            (u64::from(Hand::from(s[0].4)), u64::from(Hand::from(s[1].4)))
        };
        for r in 0..full.count_ones() as u8 {
            for prev in [0u8, r, (r + 7) % full.count_ones() as u8] {
                run.evaluations += 1;
                let res = catch(|| {
                    robopoker::verif::set_draw_index(Some(prev));
                    let g = Game::root();
                    robopoker::verif::set_draw_index(Some(r));
                    let g2 = g.deal();
                    holes(&g2)
                });
                robopoker::verif::set_draw_index(None);
                let op = format!("redeal {full} {r}");
                match res {
                    None => { run.line(&op, "panic"); run.fail("redeal-panics", &format!("{op} after a hand dealt with raw value {prev}"), "two holes", "panic"); }
                    Some((h0, h1)) => { run.line(&op, &format!("{h0} {h1}")); run.spec_checked += 1; run.distinct(&("redeal", r, prev)); }
                }
                run.count("redeal-forced");
            }
        }
        let n: u64 = if a.thorough() { 400_000 } else { 60_000 };
        let mut shared = 0u64;
        let mut g = Game::root();
        for _ in 0..n {
            let (a0, a1) = holes(&g);
            g = g.deal();
            let (b0, b1) = holes(&g);
            if (a0 | a1) & (b0 | b1) != 0 { shared += 1; }
            if b0 & b1 != 0 || b0.count_ones() != 2 || b1.count_ones() != 2 || (b0 | b1) & !full != 0 {
                run.fail("redeal-holes-malformed", "Game::deal on a dealt game", "two disjoint 2-card holes of the deck", &format!("{b0} {b1}"));
            }
        }
        run.evaluations += n;
        run.spec_checked += 1;
        let m = full.count_ones() as f64;
        let p = 1.0 - ((m - 4.0) * (m - 5.0) * (m - 6.0) * (m - 7.0)) / (m * (m - 1.0) * (m - 2.0) * (m - 3.0));
        let sigma = (n as f64 * p * (1.0 - p)).sqrt();
        run.count(&format!("redeal-shared-card z={:+.1}", (shared as f64 - n as f64 * p) / sigma));
        if (shared as f64 - n as f64 * p).abs() > 6.0 * sigma {
            run.fail("redeal-depends-on-previous-hand", &format!("{n} consecutive Game::deal() on one game"),
                &format!("a card of the previous hand dealt again in about {:.0} hands (p = {:.4})", n as f64 * p, p), &format!("{shared} hands"));
        }
    }
    // un-overridden draws: support and frequencies
    let trials: u64 = if a.thorough() { 2_000_000 } else { 400_000 };
    for &d in &[full, 0b111u64 << 20, rng.cards(5, full), rng.cards(13, full)] {
        let n = d.count_ones() as usize;
        let mut hist = vec![0u64; 64];
        for _ in 0..trials / 4 {
            let mut deck = Deck::from(Hand::from(d));
            let c = u8::from(deck.draw());
            hist[c as usize & 63] += 1;
        }
        run.evaluations += trials / 4;
        run.spec_checked += 1;
        let t = (trials / 4) as f64;
        let p = 1.0 / n as f64;
        let sigma = (t * p * (1.0 - p)).sqrt();
        for b in 0..64 {
            let inside = d >> b & 1 == 1;
            let cnt = hist[b] as f64;
            if !inside && hist[b] > 0 {
                run.fail("draw-outside-deck", &format!("deck {d}"), "only cards of the deck", &format!("card {b} drawn {} times", hist[b]));
            }
            if inside && (cnt - t * p).abs() > 6.0 * sigma {
                run.fail("draw-not-uniform", &format!("deck {d} ({} unforced draws)", trials / 4), &format!("card {b} about {:.0} times", t * p), &format!("{} times", hist[b]));
            }
        }
        run.count(&format!("unforced-deck-size={n}"));
    }
    let n_hist = if a.thorough() { 40_000 } else { 4_000 };
    run.rule.push_str(&format!("; dealing half: {n_hist} random histories of the real Game over 48 deals with the engine's own offered draws and forced ones, every state checked for pairwise disjoint holes/board and deck = complement, 4 offered draws per chance node"));
    game_stream(&mut run, &mut rng, n_hist);
    // ---- fresh threads: the first cards dealt on many threads started together must not coincide
    // (a per-thread generator seeded from the clock, a constant or the thread start makes them equal)
    {
        let nthreads = if a.thorough() { 2000 } else { 256 };
        let handles: Vec<_> = (0..nthreads)
            .map(|_| {
                std::thread::spawn(move || {
                    let mut deck = Deck::new();
                    let a = u8::from(deck.draw());
                    let b = u8::from(deck.draw());
                    let c = u8::from(deck.draw());
                    (a, b, c)
                })
            })
            .collect();
        let seqs: Vec<(u8, u8, u8)> = handles.into_iter().filter_map(|h| h.join().ok()).collect();
        run.evaluations += seqs.len() as u64;
        run.spec_checked += 1;
        let firsts: std::collections::BTreeSet<u8> = seqs.iter().map(|s| s.0).collect();
        let triples: std::collections::BTreeSet<(u8, u8, u8)> = seqs.iter().copied().collect();
        let deck_n = full.count_ones() as usize;
        // expected number of distinct first cards among t uniform draws from n: n(1-(1-1/n)^t)
        let expect = deck_n as f64 * (1.0 - (1.0 - 1.0 / deck_n as f64).powi(seqs.len() as i32));
        run.count(&format!("fresh-thread-first-cards distinct={} of {} threads", firsts.len(), seqs.len()));
        if (firsts.len() as f64) < 0.6 * expect || triples.len() * 2 < seqs.len() {
            run.fail("draws-correlated-across-threads", &format!("{} fresh threads each drawing 3 cards from a full deck", seqs.len()),
                &format!("about {:.0} distinct first cards and almost all 3-card sequences distinct", expect),
                &format!("{} distinct first cards, {} distinct sequences", firsts.len(), triples.len()));
        }
    }
    // ---- joint distribution of the two hole cards (`Deck::hole`): every unordered pair equally likely
    {
        let n: u64 = if a.thorough() { 1_200_000 } else { 250_000 };
        let cards: Vec<u8> = (0..52u8).filter(|c| full >> c & 1 == 1).collect();
        let m = cards.len();
        let mut pos = [usize::MAX; 64];
        for (i, c) in cards.iter().enumerate() { pos[*c as usize] = i; }
        let mut hist = vec![0u64; m * m];
        let mut bad = 0u64;
        for _ in 0..n {
            let h = match catch(|| { let mut deck = Deck::new(); u64::from(Hand::from(deck.hole())) }) { Some(h) => h, None => { bad += 1; continue; } };
            if h.count_ones() != 2 || h & !full != 0 { bad += 1; continue; }
            let lo = h.trailing_zeros() as usize;
            let hi = 63 - h.leading_zeros() as usize;
            hist[pos[lo] * m + pos[hi]] += 1;
        }
        run.evaluations += n;
        run.spec_checked += 1;
        let cells = (m * (m - 1) / 2) as f64;
        let expect = (n - bad) as f64 / cells;
        let mut chi2 = 0.0f64;
        let mut worst = (0usize, 0usize, 0u64);
        for i in 0..m { for j in i + 1..m {
            let o = hist[i * m + j];
            chi2 += (o as f64 - expect).powi(2) / expect;
            if (o as f64 - expect).abs() > (worst.2 as f64 - expect).abs() || worst.2 == 0 { worst = (i, j, o); }
        } }
        let dof = cells - 1.0;
        let z = (chi2 - dof) / (2.0 * dof).sqrt();
        run.count(&format!("hole-pair-chi2 z={:.1}", z));
        if bad > 0 || z > 6.0 {
            run.fail("hole-pairs-not-equally-likely", &format!("{n} x Deck::new().hole()"),
                &format!("all {} unordered pairs about {:.0} times (chi2 about {:.0})", cells as u64, expect, dof),
                &format!("chi2 = {:.0} ({:+.1} sigma), {} malformed; e.g. cards ({}, {}) dealt {} times", chi2, z, bad, cards[worst.0], cards[worst.1], worst.2));
        }
    }
    // ---- random observations (Observation::from(Street)): every card equally likely to be a pocket
    // card and equally likely to be a board card; pocket and board disjoint
    {
        use robopoker::cards::observation::Observation;
        use robopoker::cards::street::Street;
        let n: u64 = if a.thorough() { 600_000 } else { 120_000 };
        for (street, nb) in [(Street::Pref, 0u32), (Street::Flop, 3), (Street::Turn, 4), (Street::Rive, 5)] {
            let mut pocket_hist = vec![0u64; 64];
            let mut board_hist = vec![0u64; 64];
            let mut bad = 0u64;
            for _ in 0..n {
                let o = Observation::from(street);
                let p = u64::from(*o.pocket());
                let b = u64::from(*o.public());
                if p & b != 0 || p.count_ones() != 2 || b.count_ones() != nb || (p | b) & !full != 0 { bad += 1; }
                for c in 0..64 { if p >> c & 1 == 1 { pocket_hist[c] += 1; } if b >> c & 1 == 1 { board_hist[c] += 1; } }
            }
            run.evaluations += n;
            run.spec_checked += 1;
            if bad > 0 {
                run.fail("random-observation-malformed", &format!("Observation::from({street})"), "2 pocket cards, a street-sized board, disjoint, inside the deck", &format!("{bad} of {n} malformed"));
            }
            let deck_n = full.count_ones() as f64;
            for (name, hist, k) in [("pocket", &pocket_hist, 2.0f64), ("board", &board_hist, nb as f64)] {
                if k == 0.0 { continue; }
                let p = k / deck_n;
                let mean = n as f64 * p;
                let sigma = (n as f64 * p * (1.0 - p)).sqrt();
                for c in 0..64usize {
                    if full >> c & 1 == 1 && (hist[c] as f64 - mean).abs() > 6.0 * sigma {
                        run.fail("random-observation-not-uniform", &format!("{n} x Observation::from({street})"),
                            &format!("card {c} a {name} card about {mean:.0} times"), &format!("{} times", hist[c]));
                        break;
                    }
                }
            }
            run.count(&format!("random-observations street={street}"));
        }
    }
    run.finish();
}
