// C14 — Deck::draw for a forced uniform index (hook H1/H3) vs the Lean model `drawAt`,
// plus the search oracle: i-th lowest card, bijection, removal, and the un-overridden
// draw's support/frequencies on small decks (6-sigma).
use robopoker::cards::deck::Deck;
use robopoker::cards::hand::Hand;
use rpharness::*;

fn ith_lowest(d: u64, i: u32) -> u8 {
    let mut seen = 0;
    for b in 0..64 {
        if d >> b & 1 == 1 {
            if seen == i {
                return b as u8;
            }
            seen += 1;
        }
    }
    255
}

fn main() {
    let a = args();
    let mut rng = Rng::new(a.seed);
    let mut run = Run::new(&a.out);
    quiet_panics();
    let full = u64::from(Hand::from(Hand::mask()));
    let ndecks = if a.thorough() { 20000 } else { 2000 };
    let mut decks = vec![full];
    for k in 1..=52u32 {
        // one deck per size at least
        let n = full.count_ones().min(k) as usize;
        decks.push(rng.cards(n, full));
    }
    for _ in 0..ndecks {
        let n = 1 + rng.below(full.count_ones() as u64) as usize;
        decks.push(rng.cards(n, full));
    }
    run.rule = format!("full deck + one random sub-deck per size 1..52 + {ndecks} random sub-decks of the configured deck, every index i < size through the real Deck::draw with the index forced by the guarded hook; plus {} un-forced draws for the frequency test; a case is non-trivial when the deck has >= 2 cards; distinct by (deck, i)", if a.thorough() { 2_000_000 } else { 400_000 });
    for &d in &decks {
        let n = d.count_ones();
        let mut seen = 0u64;
        for i in 0..n {
            run.evaluations += 1;
            robopoker::verif::set_draw_index(Some(i as u8));
            let res = catch(|| {
                let mut deck = Deck::from(Hand::from(d));
                let c = deck.draw();
                (u8::from(c), u64::from(Hand::from(deck)))
            });
            robopoker::verif::set_draw_index(None);
            let op = format!("drawat {d} {i}");
            match res {
                None => {
                    run.line(&op, "panic");
                    run.fail("draw-panics", &op, "a card", "panic");
                }
                Some((c, rest)) => {
                    run.line(&op, &format!("{c} {rest}"));
                    run.spec_checked += 1;
                    let want = ith_lowest(d, i);
                    if c != want {
                        run.fail("draw-index-not-ith-card", &op, &format!("card {want}"), &format!("card {c}"));
                    }
                    if rest != d & !(1u64 << (c & 63)) || d >> (c & 63) & 1 == 0 {
                        run.fail("draw-does-not-remove-card", &op, &format!("{}", d & !(1u64 << (c & 63))), &format!("{rest}"));
                    }
                    seen |= 1u64 << (c & 63);
                    if n >= 2 {
                        run.distinct(&(d, i));
                    }
                }
            }
            run.count(&format!("decksize={:02}", n));
        }
        run.spec_checked += 1;
        if seen != d {
            run.fail("draw-not-bijective", &format!("deck {d}"), &format!("every card reachable: {d}"), &format!("{seen}"));
        }
    }
    // un-overridden draws: support and frequencies
    let trials: u64 = if a.thorough() { 2_000_000 } else { 400_000 };
    for &d in &[full, 0b111u64 << 20, rng.cards(5, full), rng.cards(13, full)] {
        let n = d.count_ones() as usize;
        let mut hist = vec![0u64; 64];
        for _ in 0..trials / 4 {
            let mut deck = Deck::from(Hand::from(d));
            let c = u8::from(deck.draw());
            hist[c as usize & 63] += 1;
        }
        run.evaluations += trials / 4;
        run.spec_checked += 1;
        let t = (trials / 4) as f64;
        let p = 1.0 / n as f64;
        let sigma = (t * p * (1.0 - p)).sqrt();
        for b in 0..64 {
            let inside = d >> b & 1 == 1;
            let cnt = hist[b] as f64;
            if !inside && hist[b] > 0 {
                run.fail("draw-outside-deck", &format!("deck {d}"), "only cards of the deck", &format!("card {b} drawn {} times", hist[b]));
            }
            if inside && (cnt - t * p).abs() > 6.0 * sigma {
                run.fail("draw-not-uniform", &format!("deck {d} ({} unforced draws)", trials / 4), &format!("card {b} about {:.0} times", t * p), &format!("{} times", hist[b]));
            }
        }
        run.count(&format!("unforced-deck-size={n}"));
    }
    run.finish();
}
