// C02 — chips are conserved and a hand is zero-sum along every history.
//
// Correspondence: the real `Game` is driven along random histories (legal() ∪ every raise size,
// crossed with forced seat0-wins / seat1-wins / tie deals); after every action the canonical
// state line is written (`game …`), at the end of the hand the real `settlements()` (`rewards …`).
// The Lean driver replays the same lines on `RP.Game`.
//
// Search oracle (independent of the model, written from the property text): an own ledger of
// what each player has put in, updated from the action list only, is compared with the engine's
// stacks / spent / pot after every action; at the end of the hand the payout is compared with
// the heads-up rule (contested part to the stronger hand or split, the uncalled part back, a
// folded player gets nothing). Hand order at showdown comes from `rpharness::poker::best5` (brute force
// over 5-subsets, rules order), not from the engine's `Strength`.
#[path = "../gamewalk.rs"]
mod gamewalk;
use gamewalk::*;
use robopoker::gameplay::action::Action;
use robopoker::gameplay::game::Game;
use robopoker::gameplay::ply::Turn;
use robopoker::gameplay::seat::State;
use rpharness::*;

const STACK: i32 = robopoker::verif::STACK as i32;
const BB: i32 = robopoker::verif::B_BLIND as i32;
const SB: i32 = robopoker::verif::S_BLIND as i32;

fn chips_of(a: &Action) -> i32 {
    match a {
        Action::Call(n) | Action::Raise(n) | Action::Shove(n) | Action::Blind(n) => *n as i32,
        _ => 0,
    }
}


/// the utility MCCFR learns from: the real `Node::payoff` at the leaf of the whole line, replayed
/// in a real `Tree` from the root (`Tree::plant` the freshly dealt hand, `Tree::fork` one Branch
/// per action with its edge), so that the leaf has its true parent, incoming edge and history.
/// Should the tree building panic (bucket realisation on an odd raise size …) the same chain is
/// built directly as a petgraph `DiGraph<Data, Edge>` and the leaf `Node` made over it.
fn node_payoffs(states: &[Game], hist: &[Action]) -> Option<([f32; 2], &'static str)> {
    use robopoker::cards::street::Street;
    use robopoker::clustering::abstraction::Abstraction;
    use robopoker::mccfr::{data::Data, edge::Edge, node::Node, odds::Odds, player::Player, tree::{Branch, Tree}};
    if states.len() != hist.len() + 1 {
        return None;
    }
    let edge_of = |a: &Action| match a {
        Action::Fold => Edge::Fold,
        Action::Check => Edge::Check,
        Action::Call(_) => Edge::Call,
        Action::Draw(_) => Edge::Draw,
        Action::Shove(_) => Edge::Shove,
        Action::Raise(_) | Action::Blind(_) => Edge::Raise(Odds(1, 1)), // the size lives in the child state
    };
    let abs = |g: &Game| Abstraction::from((Street::from(g.street() as isize), 0usize));
    let (st, hi) = (states.to_vec(), hist.to_vec());
    let via_tree = catch(move || {
        let mut tree = Tree::empty(Player(Turn::Choice(0)));
        let mut head = tree.plant(Data::from((st[0], abs(&st[0])))).index();
        for (i, a) in hi.iter().enumerate() {
            head = tree.fork(Branch(Data::from((st[i + 1], abs(&st[i + 1]))), edge_of(a), head)).index();
        }
        let leaf = tree.at(head);
        [leaf.payoff(&Player(Turn::Choice(0))), leaf.payoff(&Player(Turn::Choice(1)))]
    });
    if let Some(u) = via_tree {
        return Some((u, "Tree::plant+fork"));
    }
    let (st, hi) = (states.to_vec(), hist.to_vec());
    catch(move || {
        let mut graph: petgraph::graph::DiGraph<Data, Edge> = petgraph::graph::DiGraph::new();
        let mut head = graph.add_node(Data::from((st[0], Abstraction::from((Street::Pref, 0usize)))));
        for (i, a) in hi.iter().enumerate() {
            let leaf = graph.add_node(Data::from((st[i + 1], Abstraction::from((Street::Pref, 0usize)))));
            graph.add_edge(head, leaf, edge_of(a));
            head = leaf;
        }
        let node = Node::from((head, &graph));
        [node.payoff(&Player(Turn::Choice(0))), node.payoff(&Player(Turn::Choice(1)))]
    })
    .map(|u| (u, "raw-DiGraph"))
}

/// `Node::payoff` must be the net result of the hand: reward minus own contribution (own
/// ledger), and the two payoffs must cancel
fn check_node_payoff(run: &mut Run, name: &str, states: &[Game], hist: &[Action], rewards: [i32; 2], paid: [i32; 2]) {
    run.spec_checked += 1;
    let g = states.last().unwrap();
    match node_payoffs(states, hist) {
        None => run.fail("node-payoff-panics", name, "two utilities", "panic"),
        Some((u, route)) => {
            run.count(&format!("node-payoff-route:{route}"));
            let want = [(rewards[0] - paid[0]) as f32, (rewards[1] - paid[1]) as f32];
            if u != want || u[0] + u[1] != 0.0 {
                run.fail("node-payoff", name, &format!("Node::payoff = reward - contribution = {want:?}, zero-sum"), &format!("{u:?} (sum {})", u[0] + u[1]));
            }
        }
    }
    let how = match hist.last() { Some(Action::Fold) => "fold", _ => if g.verif_seats().iter().all(|s| s.1 == 0) { "all-in-runout" } else { "showdown" } };
    run.count(&format!("node-payoff:{}:{}", street_name(g), how));
}

thread_local! {
    /// betting states whose accepted amounts have been swept already, and the budget left
    static SWEPT: std::cell::RefCell<(std::collections::HashSet<(i16, [(u8, i16, i16, i16); 2], usize, u8)>, usize)> =
        std::cell::RefCell::new((Default::default(), 0));
}

/// chip invariants of a state against an own ledger
fn chips_ok(g: &Game, paid: [i32; 2]) -> bool {
    let s = g.verif_seats();
    let mut ok = g.pot() as i32 == paid[0] + paid[1];
    for p in 0..2 {
        ok &= s[p].1 >= 0 && s[p].1 as i32 == STACK - paid[p] && s[p].3 as i32 == paid[p] && s[p].2 >= 0 && s[p].2 <= s[p].3;
        ok &= (s[p].1 == 0) == (s[p].0 == State::Shoving) || s[p].0 == State::Folding;
    }
    ok
}
fn chips_show(g: &Game) -> String {
    let s = g.verif_seats();
    format!("pot {} stacks [{}, {}] spent [{}, {}] stakes [{}, {}]", g.pot(), s[0].1, s[1].1, s[0].3, s[1].3, s[0].2, s[1].2)
}

/// play a line to the end with checks / calls (all-in or fold when facing an all-in) and the
/// deal's street cards; every engine call under `catch`
fn finish_passively(rng: &mut Rng, deal: &Deal, start: &Game) -> (Vec<Action>, Vec<Game>) {
    let full = bits(hand(robopoker::cards::hand::Hand::mask()));
    let (mut acts, mut states, mut g) = (vec![], vec![], *start);
    for _ in 0..40 {
        let a = match try_turn(&g) {
            Some(Turn::Chance) => {
                let in_play = board_bits(&g) | deal.h0 | deal.h1;
                let st = { let gg = g; catch(move || gg.street() as usize).unwrap_or(0).min(2) };
                let forced = deal.streets[st];
                if forced & in_play == 0 { Action::Draw(hand(forced)) } else { Action::Draw(hand(rng.cards(if st == 0 { 3 } else { 1 }, full & !in_play))) }
            }
            Some(Turn::Choice(_)) => {
                let legal = try_legal(&g).unwrap_or_default();
                let pick = |k: fn(&Action) -> bool| legal.iter().find(|a| k(a)).copied();
                match pick(|a| matches!(a, Action::Check)).or(pick(|a| matches!(a, Action::Call(_)))) {
                    Some(a) => a,
                    None => match (pick(|a| matches!(a, Action::Shove(_))), pick(|a| matches!(a, Action::Fold))) {
                        (Some(s), Some(f)) => if rng.chance(1, 2) { s } else { f },
                        (Some(s), None) => s,
                        (None, Some(f)) => f,
                        _ => break,
                    },
                }
            }
            _ => break,
        };
        match try_apply(&g, a) {
            Some(ch) => { g = ch; acts.push(a); states.push(g); }
            None => break,
        }
    }
    (acts, states)
}

/// The property quantifies over every action history the engine ACCEPTS, not only over the
/// actions it offers: at this state ask `is_allowed` for Raise/Call/Shove/Blind with every integer
/// amount -1..=STACK+stake+2, apply each accepted one and check the chip invariants on the child
/// against the ledger; the smallest and the largest accepted amount of each kind are played to the
/// end of the hand (settlement must be zero-sum) and go to the model as a `game` line.
fn sweep_accepted(run: &mut Run, rng: &mut Rng, deal: &Deal, hist: &[Action], g: &Game, paid: [i32; 2]) {
    let actor = match try_turn(g) { Some(Turn::Choice(p)) => Some(p.min(1)), _ => None };
    let seats = g.verif_seats();
    let top = STACK as i16 + seats[0].2.max(seats[1].2) + 2;
    let mk: [(&str, fn(i16) -> Action); 4] = [("raise", Action::Raise), ("call", Action::Call), ("shove", Action::Shove), ("blind", Action::Blind)];
    for (kind, make) in mk {
        let mut accepted: Vec<i16> = vec![];
        for x in -1..=top {
            let a = make(x);
            run.evaluations += 1;
            match try_allowed(g, &a) {
                Some(true) => accepted.push(x),
                Some(false) => {}
                None => run.fail("is_allowed-panics", &format!("allowed {} {} | {} | {}", deal.h0, deal.h1, hist_tok(hist), act_tok(&a)), "0/1", "panic"),
            }
        }
        run.count_n(&format!("sweep:{}:{}:accepted", turn_kind(g), kind), accepted.len() as u64);
        for (i, &x) in accepted.iter().enumerate() {
            let a = make(x);
            let mut h2 = hist.to_vec();
            h2.push(a);
            let name = format!("game {} {} | {}", deal.h0, deal.h1, hist_tok(&h2));
            run.spec_checked += 1;
            let child = match try_apply(g, a) {
                Some(c) => c,
                None => {
                    run.fail("engine-rejects-an-amount-is_allowed-accepts", &name, "apply succeeds", "panic");
                    continue;
                }
            };
            let mut paid2 = paid;
            match actor {
                Some(p) => paid2[p] += x as i32,
                None => {
                    run.fail("chips-accepted-without-actor", &name, "rejected (nobody is to act)", &chips_show(&child));
                    continue;
                }
            }
            if !chips_ok(&child, paid2) {
                run.fail("conservation-after-accepted-amount", &name,
                    &format!("pot {} stacks {:?} (>= 0) spent {:?}", paid2[0] + paid2[1], [STACK - paid2[0], STACK - paid2[1]], paid2), &chips_show(&child));
            }
            // the extremes of every accepted range: to the end of the hand
            if i == 0 || i == accepted.len() - 1 {
                let (more, states) = finish_passively(rng, deal, &child);
                h2.extend(more.iter().copied());
                let mut all = vec![*g, child];
                all.extend(states.iter().copied());
                // ledger along the continuation
                let mut p3 = paid2;
                for k in 0..more.len() {
                    if let Some(Turn::Choice(p)) = try_turn(&all[k + 1]) { p3[p.min(1)] += chips_of(&more[k]); }
                    run.spec_checked += 1;
                    if !chips_ok(&all[k + 2], p3) {
                        let upto = hist.len() + 2 + k;
                        run.fail("conservation-after-accepted-amount", &format!("game {} {} | {}", deal.h0, deal.h1, hist_tok(&h2[..upto])),
                            &format!("pot {} stacks {:?} spent {:?}", p3[0] + p3[1], [STACK - p3[0], STACK - p3[1]], p3), &chips_show(&all[k + 2]));
                        break;
                    }
                }
                // correspondence: the model replays the whole line (prefix states are already compared elsewhere)
                let mut gs = vec![root_with(deal.h0, deal.h1)];
                let mut okk = true;
                for a in &h2 { match try_apply(gs.last().unwrap(), *a) { Some(n) => gs.push(n), None => { okk = false; break; } } }
                let mut txt = gs.iter().map(state_line).collect::<Vec<_>>().join(" ; ");
                if !okk { txt.push_str(" ; panic"); }
                run.line(&format!("game {} {} | {}", deal.h0, deal.h1, hist_tok(&h2)), &txt);
                let last = *all.last().unwrap();
                if try_turn(&last) == Some(Turn::Terminal) {
                    run.spec_checked += 1;
                    match catch(move || last.settlements().iter().map(|s| (s.reward as i32, s.pnl() as i32, s.risked as i32)).collect::<Vec<_>>()) {
                        None => run.fail("settlements-panic", &format!("rewards {} {} | {}", deal.h0, deal.h1, hist_tok(&h2)), "rewards", "panic"),
                        Some(v) => {
                            if okk { check_node_payoff(run, &format!("payoff {} {} | {}", deal.h0, deal.h1, hist_tok(&h2)), &gs, &h2, [v[0].0, v[1].0], p3); }
                            let pot = last.pot() as i32;
                            if v[0].0 + v[1].0 != pot || v[0].1 + v[1].1 != 0 || v[0].0 < 0 || v[1].0 < 0 || v[0].2 != p3[0] || v[1].2 != p3[1] || pot != p3[0] + p3[1] {
                                run.fail("payout-after-accepted-amount", &format!("rewards {} {} | {}", deal.h0, deal.h1, hist_tok(&h2)),
                                    &format!("rewards sum to the pot {} = {:?} put in, pnl zero-sum", p3[0] + p3[1], p3), &format!("rewards [{}, {}] pnl [{}, {}] risked [{}, {}] pot {pot}", v[0].0, v[1].0, v[0].1, v[1].1, v[0].2, v[1].2));
                            }
                        }
                    }
                    run.count("sweep:played-to-the-end");
                }
            }
        }
    }
    run.count("sweep:states");
}

/// conservation oracle along one history; returns the ledger at the end
fn check_history(run: &mut Run, rng: &mut Rng, deal: &Deal, hist: &[Action], states: &[Game]) -> [i32; 2] {
    let name = |i: usize| format!("game {} {} | {}", deal.h0, deal.h1, hist_tok(&hist[..i]));
    // the freshly dealt hand: blinds are in, nothing else
    let s = states[0].verif_seats();
    let mut paid = [STACK - s[0].1 as i32, STACK - s[1].1 as i32];
    run.spec_checked += 1;
    let mut blinds = paid;
    blinds.sort();
    if blinds != [SB, BB] || states[0].pot() as i32 != SB + BB {
        run.fail("root-blinds", &name(0), &format!("blinds {SB}/{BB} posted, pot {}", SB + BB), &format!("paid {paid:?} pot {}", states[0].pot()));
    }
    for i in 0..=hist.len() {
        let g = &states[i];
        if i > 0 {
            // the chips of action i-1 come from the player whose turn it was
            if let Some(Turn::Choice(p)) = try_turn(&states[i - 1]) {
                paid[p] += chips_of(&hist[i - 1]);
            } else if chips_of(&hist[i - 1]) != 0 {
                run.fail("chips-moved-without-actor", &name(i), "no chips", &act_tok(&hist[i - 1]));
            }
        }
        let s = g.verif_seats();
        run.spec_checked += 1;
        let mut ok = g.pot() as i32 == paid[0] + paid[1];
        for p in 0..2 {
            ok &= s[p].1 >= 0 && s[p].1 as i32 == STACK - paid[p] && s[p].3 as i32 == paid[p] && s[p].2 >= 0 && s[p].2 <= s[p].3;
            ok &= (s[p].1 == 0) == (s[p].0 == State::Shoving) || s[p].0 == State::Folding;
        }
        if !ok {
            run.fail("conservation", &name(i), &format!("pot {} stacks {:?} spent {:?}", paid[0] + paid[1], [STACK - paid[0], STACK - paid[1]], paid),
                &format!("pot {} stacks [{}, {}] spent [{}, {}] stakes [{}, {}]", g.pot(), s[0].1, s[1].1, s[0].3, s[1].3, s[0].2, s[1].2));
        }
        run.distinct(&betting_key(g));
        run.count(&format!("{}:{}", street_name(g), turn_kind(g)));
        // every amount the engine accepts here, once per distinct betting state (within the budget)
        let fresh = SWEPT.with(|c| { let mut c = c.borrow_mut(); if c.1 > 0 && c.0.insert(betting_key(g)) { c.1 -= 1; true } else { false } });
        if fresh && ok {
            sweep_accepted(run, rng, deal, &hist[..i], g, paid);
        }
    }
    paid
}

/// heads-up payout rule
fn payout_oracle(paid: [i32; 2], folded: [bool; 2], rank: (u8, u8)) -> [i32; 2] {
    let pot = paid[0] + paid[1];
    if folded[0] && !folded[1] {
        return [0, pot];
    }
    if folded[1] && !folded[0] {
        return [pot, 0];
    }
    let eff = paid[0].min(paid[1]);
    let back = [paid[0] - eff, paid[1] - eff]; // uncalled part
    let contested = 2 * eff;
    if rank.0 > rank.1 {
        [contested + back[0], back[1]]
    } else if rank.0 < rank.1 {
        [back[0], contested + back[1]]
    } else {
        [contested / 2 + back[0], contested - contested / 2 + back[1]]
    }
}

/// one history: walk, correspondence lines, conservation + payout oracles, ambient re-asks
fn one_history(run: &mut Run, rng: &mut Rng, deals: &[Deal], h: usize) {
        let deal = &deals[h % deals.len()];
        let style = (h / deals.len()) as u64 % 5;
        let (hist, states, issues) = random_history_checked(rng, deal, style);
        for (class, input, expected, got) in &issues {
            run.fail(class, input, expected, got);
        }
        run.evaluations += states.len() as u64;
        let line = states.iter().map(state_line).collect::<Vec<_>>().join(" ; ");
        run.line(&format!("game {} {} | {}", deal.h0, deal.h1, hist_tok(&hist)), &line);
        let paid = check_history(run, rng, deal, &hist, &states);
        let last = states.last().unwrap();
        let op_end = format!("game {} {} | {}", deal.h0, deal.h1, hist_tok(&hist));
        if try_turn(last) != Some(Turn::Terminal) {
            if issues.is_empty() {
                run.fail("hand-does-not-end", &op_end, "terminal within 400 actions", &try_turn(last).map_or("turn-panics".to_string(), turn_tok));
            }
            return;
        }
        // end of the hand: the engine's own strength order goes to the model (whose strength is
        // abstract); the payout oracle uses the rules evaluator on the cards actually dealt
        let rk = { let l = *last; catch(move || ranks(&l)).unwrap_or((0, 0)) };
        let seats = last.verif_seats();
        let folded = [seats[0].0 == State::Folding, seats[1].0 == State::Folding];
        let op = format!("rewards {} {} | {} | {} {}", deal.h0, deal.h1, hist_tok(&hist), rk.0, rk.1);
        let g = *last;
        let settle = move || catch(move || g.settlements().iter().map(|s| (s.reward as i32, s.pnl() as i32)).collect::<Vec<_>>());
        let show = |v: &Option<Vec<(i32, i32)>>| match v { None => "panic".to_string(), Some(v) => format!("{} {} {} {}", v[0].0, v[1].0, v[0].1, v[1].1) };
        let plain = settle();
        // the same question under other ambient conditions: TRACE logging on, after unrelated
        // calls, from a fresh thread (with logging on). The answers must not depend on them.
        let traced = ambient::with_trace(settle);
        let _ = (try_legal(&g), { let g2 = g; catch(move || g2.deck()).is_some() }, try_turn(&g), try_allowed(&states[0], &Action::Fold));
        let again = settle();
        run.spec_checked += 2;
        run.line(&op, &show(&traced)); // the model line is the same either way
        if traced != plain {
            run.fail("payout-depends-on-logging", &op, &format!("{} (logging off)", show(&plain)), &format!("{} (TRACE logging on)", show(&traced)));
        }
        if again != plain {
            run.fail("payout-depends-on-history-of-calls", &op, &show(&plain), &show(&again));
        }
        if h % 8 == 0 {
            let threaded = ambient::in_thread(move || ambient::with_trace(settle)).flatten();
            run.spec_checked += 1;
            if threaded != plain {
                run.fail("payout-depends-on-thread", &op, &show(&plain), &show(&threaded));
            }
            // the whole line of play again with TRACE logging on: same states
            let hist2 = hist.clone();
            let (h0, h1) = (deal.h0, deal.h1);
            let replay = ambient::with_trace(|| catch(move || {
                let mut g = root_with(h0, h1);
                let mut v = vec![state_line(&g)];
                for a in hist2 { g = g.apply(a); v.push(state_line(&g)); } // inside catch
                v.join(" ; ")
            }));
            run.spec_checked += 1;
            if replay.as_deref() != Some(line.as_str()) {
                run.fail("state-depends-on-logging", &op_end, &line, &replay.unwrap_or("panic".into()));
            }
            run.count("ambient:thread+traced-replay");
        }
        match plain {
            None => {
                run.line(&op, "panic");
                run.fail("settlements-panic", &op, "rewards", "panic");
            }
            Some(v) => {
                run.line(&op, &format!("{} {} {} {}", v[0].0, v[1].0, v[0].1, v[1].1));
                check_node_payoff(run, &format!("payoff {} {} | {}", deal.h0, deal.h1, hist_tok(&hist)), &states, &hist, [v[0].0, v[1].0], paid);
                run.spec_checked += 1;
                let hole = |i: usize| bits(robopoker::cards::hand::Hand::from(seats[i].4));
                let showdown = !folded[0] && !folded[1];
                let rules = if showdown && (hole(0) | hole(1) | board_bits(last)).count_ones() == 9 && board_bits(last) != u64::MAX { rules_ranks(hole(0), hole(1), board_bits(last)) } else { (0, 0) };
                if showdown && rules != rk {
                    run.fail("strength-order", &op, &format!("rules order {rules:?}"), &format!("engine order {rk:?}"));
                }
                let want = payout_oracle(paid, folded, rules);
                let got = [v[0].0, v[1].0];
                let pot = last.pot() as i32;
                if got != want || got[0] + got[1] != pot || v[0].1 + v[1].1 != 0 || v[0].1 != got[0] - paid[0] || v[1].1 != got[1] - paid[1] {
                    run.fail("payout", &op, &format!("rewards {want:?} (pot {pot}, zero-sum)"), &format!("rewards {got:?} pnl [{}, {}]", v[0].1, v[1].1));
                }
                let how = if folded[0] || folded[1] { if rk.0 == rk.1 { "fold-with-equal-strengths" } else { "fold" } } else if rules.0 == rules.1 { "showdown-tie" } else if rules.0 > rules.1 { "showdown-seat0" } else { "showdown-seat1" };
                if showdown {
                    let top = rpharness::poker::best5(hole(0) | board_bits(last), is_shortdeck()).max(rpharness::poker::best5(hole(1) | board_bits(last), is_shortdeck()));
                    run.count(&format!("showdown-best-category:{}", top.0));
                    if top.0 == 8 && top.1[0] == 13 {
                        run.count("showdown-royal-flush");
                    }
                }
                run.count(&format!("end:{}:{}", street_name(last), how));
                if seats[0].1 == 0 && seats[1].1 == 0 {
                    run.count("end:all-in-runout");
                }
            }
        }
        // settlements() before the end of the hand is refused (model: none)
        if h % 16 == 0 && hist.len() > 1 {
            let k = rng.below(hist.len() as u64 - 1) as usize;
            let g = states[k];
            let op = format!("rewards {} {} | {} | 1 0", deal.h0, deal.h1, hist_tok(&hist[..k]));
            let r = catch(move || g.settlements().iter().map(|s| s.reward).collect::<Vec<_>>());
            run.line(&op, &match r { None => "panic".to_string(), Some(v) => format!("{} {} ? ?", v[0], v[1]) });
            run.count("settlements-before-end");
        }
}

fn main() {
    let a = args();
    let mut rng = Rng::new(a.seed);
    let mut run = Run::new(&a.out);
    quiet_panics();
    ambient::install();
    let n_hist: usize = if a.thorough() { 600_000 } else { 80_000 };
    let deals = make_deals(&mut rng, 96);
    SWEPT.with(|c| c.borrow_mut().1 = if a.thorough() { 400_000 } else { 9_000 });
    run.rule = format!(
        "{n_hist} random histories of the real Game (5 play styles x legal() ∪ every raise size) over {} forced deals (crafted: seat0-wins/seat1-wins/tie, royal flush on the board / in one hand, straight flush vs straight flush, wheels, board-plays, kicker fights; + random), state compared after every action, settlements at the end of every hand, and the real Node::payoff at the leaf of the line replayed in a real Tree (plant + fork per action, true incoming edges) (= reward - own contribution, zero-sum); at the first visit of a betting state (budget 9k quick / 400k thorough) is_allowed is asked for Raise/Call/Shove/Blind with every amount -1..=STACK+stake+2, every accepted amount is applied and the chip invariants checked on the child, the extremes of each accepted range are played to the end and settled; a case = one visited betting state, non-trivial always (blinds are in), distinct by (pot, seats, ticker, street)",
        deals.len()
    );
    for h in 0..n_hist {
        // back-stop: whatever escapes the per-call `catch`es is reported, the run goes on
        let r = std::panic::catch_unwind(std::panic::AssertUnwindSafe(|| one_history(&mut run, &mut rng, &deals, h)));
        if r.is_err() {
            log::set_max_level(log::LevelFilter::Off);
            run.fail("engine-panics-outside-catch", &format!("history #{h} of seed {} (deal {} {})", a.seed, deals[h % deals.len()].h0, deals[h % deals.len()].h1), "no panic", "panic");
        }
    }
    run.exhaustive = false;
    run.finish();
}
