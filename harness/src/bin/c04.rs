// C04 — the real `Showdown::from(ledger).settle()` vs the Lean model `RP.Showdown.settle`
// (correspondence stream) and vs an independent layered-pot oracle (search oracle).
//
// The oracle is written from the property statement / poker side-pot rules, not from the
// engine's loop: sort the distinct commitment levels, cut the pot into layers, find each
// layer's eligible seats and winners, and check
//   * conservation, folded => 0, rewards >= 0,
//   * reward > 0 => winner of some layer,
//   * sum of floor shares <= reward <= sum of ceil shares over the layers the seat wins,
//   * cap: reward <= sum_q min(risked_q, risked_p),
//   * exact: maximal runs of adjacent layers with the same winner set are paid floor(chips/n)
//     each plus chips mod n single chips to the first winners in seat order.
use robopoker::cards::hand::Hand;
use robopoker::cards::kicks::Kickers;
use robopoker::cards::rank::Rank;
use robopoker::cards::ranking::Ranking;
use robopoker::cards::strength::Strength;
use robopoker::gameplay::seat::State;
use robopoker::gameplay::settlement::Settlement;
use robopoker::gameplay::showdown::Showdown;
use rpharness::*;
use std::sync::atomic::{AtomicBool, AtomicU64, Ordering};
use std::sync::Mutex;

#[derive(Clone, Copy, PartialEq, Eq, Hash, Debug)]
struct Seat {
    risked: i16,
    status: u8, // 0 betting, 1 shoving, 2 folding
    strength: u8,
}

/// a mixed bag of strengths across the categories (strictly increasing)
fn mixed_pool() -> Vec<Strength> {
    let k = |m: u16| Kickers::from(m);
    vec![
        Strength::from((Ranking::HighCard(Rank::Seven), k(0b0000_0000_1111))),
        Strength::from((Ranking::HighCard(Rank::Ace), k(0b0000_0000_1111))),
        Strength::from((Ranking::HighCard(Rank::Ace), k(0b0100_0000_0111))),
        Strength::from((Ranking::OnePair(Rank::Two), k(0b1_1100_0000_0000))),
        Strength::from((Ranking::OnePair(Rank::Ace), k(0))),
        Strength::from((Ranking::TwoPair(Rank::Three, Rank::Two), k(1 << 12))),
        Strength::from((Ranking::TwoPair(Rank::Ace, Rank::King), k(1))),
        Strength::from((Ranking::ThreeOAK(Rank::Nine), k(0b11))),
        Strength::from((Ranking::Straight(Rank::Five), k(0))),
        Strength::from((Ranking::Straight(Rank::Ace), k(0))),
        Strength::from((Ranking::FullHouse(Rank::Two, Rank::Ace), k(0))),
        Strength::from((Ranking::FourOAK(Rank::Two), k(1 << 12))),
        Strength::from((Ranking::StraightFlush(Rank::King), k(0))),
    ]
}

/// the largest and the smallest value of the `Strength` type below the `Ranking::MAX` sentinel
fn max_strength() -> Strength {
    Strength::from((Ranking::StraightFlush(Rank::Ace), Kickers::from(0u16)))
}
fn min_strength() -> Strength {
    Strength::from((Ranking::HighCard(Rank::Two), Kickers::from(0u16)))
}

const RANKS: [Rank; 13] = [
    Rank::Two, Rank::Three, Rank::Four, Rank::Five, Rank::Six, Rank::Seven, Rank::Eight,
    Rank::Nine, Rank::Ten, Rank::Jack, Rank::Queen, Rank::King, Rank::Ace,
];

/// how `k` abstract levels are picked out of a sorted pool
#[derive(Clone, Copy)]
enum Pick {
    Spread, // evenly spaced, always including the bottom and the top of the pool (k = 1: the top)
    First,  // the k smallest (adjacent pool entries stay adjacent)
    Last,   // the k largest
}

const MAXLEVELS: usize = 13;
const EMBEDDINGS: [&str; 5] = ["extremes", "kickers-only", "second-rank-twopair", "second-rank-fullhouse", "evaluator-7-cards"];

/// order-isomorphic embeddings of the abstract levels 0..k into real `Strength` values:
/// `tabs[e][k]` = the k strictly increasing strengths used for a ledger with k levels.
/// The model only ever sees the naturals.
fn embeddings() -> Vec<Vec<Vec<Strength>>> {
    // (a) bottom = minimal strength, top = maximal strength (ace-high straight flush)
    let mut extremes = vec![min_strength()];
    extremes.extend(mixed_pool());
    extremes.push(max_strength());
    // (b) same category and rank, only the kickers differ: all 4-kicker masks below the ace
    let mut kick: Vec<Strength> = (0u16..1 << 12)
        .filter(|m| m.count_ones() == 4)
        .map(|m| Strength::from((Ranking::HighCard(Rank::Ace), Kickers::from(m))))
        .collect();
    kick.sort();
    // (c) only the second rank field differs: TwoPair(A, x) and FullHouse(A, x), x = 2..K
    let mut second: Vec<Strength> = vec![];
    for r in &RANKS[..12] {
        second.push(Strength::from((Ranking::TwoPair(Rank::Ace, *r), Kickers::from(0u16))));
    }
    for r in &RANKS[..12] {
        second.push(Strength::from((Ranking::FullHouse(Rank::Ace, *r), Kickers::from(0u16))));
    }
    // (d) what the real evaluator makes of actual 7-card hands, royal flush on top
    let hands = [
        "2c 4d 7h 9s Jc Qd Kh", // king high
        "2c 4d 7h 9s Jc Qd Ah", // ace high
        "2c 2d 7h 9s Jc Qd Ah", // pair of deuces
        "Ac Ad 7h 9s Jc Qd 2h", // pair of aces
        "Ac Ad 7h 7s Jc Qd 2h", // aces and sevens
        "Ac Ad Kh Ks Jc Qd 2h", // aces and kings
        "7c 7d 7h 9s Jc Qd 2h", // trip sevens
        "Ac 2d 3h 4s 5c Qd 9h", // wheel
        "Ac Kd Qh Js Tc 2d 3h", // broadway
        "2c 5c 7c 9c Jc Qd Kh", // flush
        "7c 7d 7h 9s 9c Qd 2h", // sevens full
        "Kc Kd Kh Ks Ac 2d 3h", // quad kings
        "Ac Ad Ah As Kc 2d 3h", // quad aces
        "5h 6h 7h 8h 9h Ac Ad", // nine-high straight flush
        "Ts Js Qs Ks As 2d 3h", // royal flush
    ];
    let mut eval: Vec<Strength> = hands.iter().map(|h| Strength::from(Hand::try_from(*h).expect("hand"))).collect();
    let royal = *eval.last().unwrap();
    eval.sort();
    eval.dedup();
    assert!(eval.len() >= MAXLEVELS, "evaluator pool too small");
    assert!(royal == max_strength() && *eval.last().unwrap() == royal, "royal flush is not the maximal strength");
    let pools: Vec<(Vec<Strength>, Pick)> = vec![
        (extremes, Pick::Spread),
        (kick, Pick::Spread),
        (second.clone(), Pick::First),
        (second, Pick::Last),
        (eval, Pick::Spread),
    ];
    let mut tabs = vec![];
    for (pool, pick) in pools {
        for w in pool.windows(2) {
            assert!(w[0] < w[1], "strength pool not strictly increasing");
        }
        assert!(pool.len() >= MAXLEVELS);
        let n = pool.len();
        let mut by_k = vec![];
        for k in 0..=MAXLEVELS {
            let t: Vec<Strength> = (0..k)
                .map(|i| match pick {
                    Pick::Spread => if k == 1 { pool[n - 1] } else { pool[i * (n - 1) / (k - 1)] },
                    Pick::First => pool[i],
                    Pick::Last => pool[n - k + i],
                })
                .collect();
            for w in t.windows(2) {
                assert!(w[0] < w[1], "embedding not strictly increasing");
            }
            by_k.push(t);
        }
        tabs.push(by_k);
    }
    tabs
}

fn status_of(s: u8) -> State {
    match s {
        0 => State::Betting,
        1 => State::Shoving,
        _ => State::Folding,
    }
}
fn status_char(s: u8) -> char {
    match s {
        0 => 'b',
        1 => 's',
        _ => 'f',
    }
}

fn op_of(l: &[Seat]) -> String {
    let mut s = format!("settle {}", l.len());
    for p in l {
        s.push_str(&format!(" {} {} {}", p.risked, status_char(p.status), p.strength));
    }
    s
}

// watchdog: `settle` is a pair of `while let` loops; the model proves they terminate, a regression
// (e.g. `>` -> `>=` in `remaining`) would spin forever. A call that makes no progress for 10 s is
// reported on stderr and the harness exits non-zero (the check then fails with that message).
static CASE: AtomicU64 = AtomicU64::new(0);
static DONE: AtomicBool = AtomicBool::new(false);
static CURRENT: Mutex<Vec<Seat>> = Mutex::new(Vec::new());

fn watchdog() {
    std::thread::spawn(|| {
        let mut last = u64::MAX;
        let mut stalled = 0;
        loop {
            std::thread::sleep(std::time::Duration::from_millis(500));
            if DONE.load(Ordering::SeqCst) {
                return;
            }
            let c = CASE.load(Ordering::SeqCst);
            if c == last && c % 2 == 1 {
                stalled += 1;
                if stalled >= 20 {
                    let op = CURRENT.lock().map(|g| op_of(&g)).unwrap_or_default();
                    eprintln!("C04 settle-does-not-terminate: Showdown::settle did not return within 10 s on `{op}`");
                    std::process::exit(3);
                }
            } else {
                stalled = 0;
                last = c;
            }
        }
    });
}

/// the real code (CASE is odd while the call is running)
fn real(strengths: &[Strength], l: &[Seat]) -> Option<Vec<i16>> {
    if let Ok(mut g) = CURRENT.lock() {
        g.clear();
        g.extend_from_slice(l);
    }
    CASE.fetch_add(1, Ordering::SeqCst);
    let r = real_call(strengths, l);
    CASE.fetch_add(1, Ordering::SeqCst);
    r
}
fn real_call(strengths: &[Strength], l: &[Seat]) -> Option<Vec<i16>> {
    let ledger: Vec<Settlement> = l.iter().zip(strengths).map(|(p, s)| Settlement::from((p.risked, status_of(p.status), *s))).collect();
    catch(move || Showdown::from(ledger).settle().iter().map(|s| s.reward).collect::<Vec<i16>>())
}

/// hypotheses of the property: a contesting seat exists; with M = the largest contesting
/// commitment, every contesting seat that is not all-in has committed M, no folded seat has
/// committed more than M; commitments are non-negative and fit the chip type together
fn valid(l: &[Seat]) -> bool {
    let live: Vec<&Seat> = l.iter().filter(|p| p.status != 2).collect();
    if live.is_empty() {
        return false;
    }
    let m = live.iter().map(|p| p.risked).max().unwrap();
    l.iter().all(|p| p.risked >= 0)
        && l.iter().map(|p| p.risked as i64).sum::<i64>() <= i16::MAX as i64
        && l.iter().all(|p| match p.status {
            0 => p.risked == m,
            1 => p.risked <= m,
            _ => p.risked <= m,
        })
}

struct Layer {
    pot: i64,
    winners: Vec<usize>,
}

/// independent layered-pot decomposition (i64 arithmetic)
fn layers(l: &[Seat]) -> Vec<Layer> {
    let mut levels: Vec<i64> = l.iter().map(|p| p.risked as i64).filter(|&r| r > 0).collect();
    levels.sort();
    levels.dedup();
    let mut out = vec![];
    let mut lo = 0i64;
    for &hi in &levels {
        let payers = l.iter().filter(|p| p.risked as i64 >= hi).count() as i64;
        let eligible: Vec<usize> = (0..l.len()).filter(|&i| l[i].status != 2 && l[i].risked as i64 >= hi).collect();
        let top = eligible.iter().map(|&i| l[i].strength).max();
        let winners = eligible.into_iter().filter(|&i| Some(l[i].strength) == top).collect();
        out.push(Layer { pot: (hi - lo) * payers, winners });
        lo = hi;
    }
    out
}

/// the oracle; returns (class, expected, got) of every deviation
fn oracle(l: &[Seat], got: &[i16]) -> Vec<(&'static str, String, String)> {
    let mut bad = vec![];
    let n = l.len();
    let g: Vec<i64> = got.iter().map(|&x| x as i64).collect();
    if g.len() != n {
        bad.push(("ledger-length-changed", format!("{n} seats"), format!("{} seats", g.len())));
        return bad;
    }
    let staked: i64 = l.iter().map(|p| p.risked as i64).sum();
    let paid: i64 = g.iter().sum();
    if staked != paid {
        bad.push(("chips-not-conserved", format!("sum of rewards {staked}"), format!("{paid}")));
    }
    let ls = layers(l);
    let mut lower = vec![0i64; n];
    let mut upper = vec![0i64; n];
    let mut wins = vec![false; n];
    for layer in &ls {
        let k = layer.winners.len() as i64;
        for &w in &layer.winners {
            wins[w] = true;
            lower[w] += layer.pot / k;
            upper[w] += (layer.pot + k - 1) / k;
        }
    }
    // exact: merge maximal runs of adjacent layers with the same winner set
    let mut exact = vec![0i64; n];
    let mut i = 0;
    while i < ls.len() {
        let mut chips = ls[i].pot;
        let mut j = i + 1;
        while j < ls.len() && ls[j].winners == ls[i].winners {
            chips += ls[j].pot;
            j += 1;
        }
        let k = ls[i].winners.len() as i64;
        if k > 0 {
            for (pos, &w) in ls[i].winners.iter().enumerate() {
                exact[w] += chips / k + if (pos as i64) < chips % k { 1 } else { 0 };
            }
        }
        i = j;
    }
    for p in 0..n {
        if g[p] < 0 {
            bad.push(("negative-reward", format!("seat {p}: >= 0"), format!("{}", g[p])));
        }
        if l[p].status == 2 && g[p] != 0 {
            bad.push(("folded-seat-paid", format!("seat {p}: 0"), format!("{}", g[p])));
        }
        if g[p] > 0 && !wins[p] {
            bad.push(("paid-without-winning-a-layer", format!("seat {p}: 0"), format!("{}", g[p])));
        }
        if g[p] < lower[p] || g[p] > upper[p] {
            bad.push(("share-outside-floor-ceil", format!("seat {p}: {}..={}", lower[p], upper[p]), format!("{}", g[p])));
        }
        let cap: i64 = l.iter().map(|q| (q.risked.min(l[p].risked)) as i64).sum();
        if g[p] > cap {
            bad.push(("paid-above-cap", format!("seat {p}: <= {cap}"), format!("{}", g[p])));
        }
    }
    if g != exact {
        bad.push(("merged-layer-payout-differs", format!("{exact:?}"), format!("{g:?}")));
    }
    bad
}

struct Ctx {
    tabs: Vec<Vec<Vec<Strength>>>,
    cycle: usize,
    buf: Vec<Strength>,
    run: Run,
}

impl Ctx {
    /// one ledger: correspondence line always; oracle only under the property's hypotheses
    /// `emb`: which embedding of the abstract levels into real strengths (None: next in the cycle)
    fn case(&mut self, l: &[Seat], tag: &str, emb: Option<usize>) {
        let op = op_of(l);
        let e = match emb {
            Some(e) => e,
            None => {
                self.cycle = (self.cycle + 1) % EMBEDDINGS.len();
                self.cycle
            }
        };
        let levels = l.iter().map(|p| p.strength as usize + 1).max().unwrap_or(0);
        self.run.count(&format!("embedding/{}", EMBEDDINGS[e]));
        self.buf.clear();
        for p in l {
            self.buf.push(self.tabs[e][levels][p.strength as usize]);
        }
        let strengths = std::mem::take(&mut self.buf);
        self.case_with(l, tag, &strengths, op, "");
        self.buf = strengths;
    }

    /// `strengths[i]` is the real `Strength` of seat i; `l[i].strength` its abstract level (what
    /// the model and the oracle see). `origin` is appended to failure inputs (the hands, if any).
    fn case_with(&mut self, l: &[Seat], tag: &str, strengths: &[Strength], op: String, origin: &str) {
        let ok = valid(l);
        // the comparator the engine relies on (`<`, `max`, `==`) must be consistent on the
        // strengths in play, and must order them like the abstract levels
        for i in 0..l.len() {
            for j in i + 1..l.len() {
                let (a, b) = (strengths[i], strengths[j]);
                if (a.cmp(&b) == std::cmp::Ordering::Equal) != (a == b) || (b.cmp(&a) == std::cmp::Ordering::Equal) != (b == a) {
                    self.run.fail("strength-ord-eq-inconsistent", &format!("{op}{origin}"), "cmp == Equal iff ==", &format!("seats {i},{j}: cmp {:?}, == {}", a.cmp(&b), a == b));
                }
                if a.cmp(&b) != l[i].strength.cmp(&l[j].strength) {
                    self.run.fail("strength-order-differs-from-rules", &format!("{op}{origin}"), &format!("seats {i},{j}: {:?}", l[i].strength.cmp(&l[j].strength)), &format!("{:?}", a.cmp(&b)));
                }
            }
        }
        self.run.evaluations += 1;
        let res = real(strengths, l);
        let origin_op = format!("{op}{origin}");
        let op = &op;
        match &res {
            None => self.run.line(&op, "panic"),
            Some(r) => {
                let mut s = String::from("rewards");
                for x in r {
                    s.push_str(&format!(" {x}"));
                }
                self.run.line(&op, &s)
            }
        }
        if !ok {
            self.run.count(&format!("{tag}/outside-hypotheses"));
            return;
        }
        self.run.count(&format!("{tag}/players={}", l.len()));
        self.run.spec_checked += 1;
        match res {
            None => self.run.fail("settle-panics", &origin_op, "a payout", "panic"),
            Some(r) => {
                for (class, want, got) in oracle(l, &r) {
                    self.run.fail(class, &origin_op, &want, &format!("{got} (rewards {r:?})"));
                }
                // non-trivial: at least two layers or a tie with an odd chip
                let ls = layers(l);
                let odd = ls.iter().any(|y| y.winners.len() > 1 && y.pot % y.winners.len() as i64 != 0);
                if ls.len() >= 2 || odd {
                    self.run.distinct(&l.to_vec());
                }
                if odd {
                    self.run.count("feature/odd-chip");
                }
                if ls.len() >= 3 {
                    self.run.count("feature/three-or-more-layers");
                }
                if l.iter().any(|p| p.status == 2 && p.risked > 0) {
                    self.run.count("feature/folded-money");
                }
            }
        }
    }
}

fn enumerate(ctx: &mut Ctx, n: usize, maxc: i16, levels: u8, invalid_every: u64) {
    let per = (maxc as u64 + 1) * 3 * levels as u64;
    let total = per.pow(n as u32);
    let mut skipped = 0u64;
    for code in 0..total {
        let mut c = code;
        let mut l = Vec::with_capacity(n);
        for _ in 0..n {
            let d = c % per;
            c /= per;
            let risked = (d % (maxc as u64 + 1)) as i16;
            let d = d / (maxc as u64 + 1);
            l.push(Seat { risked, status: (d % 3) as u8, strength: (d / 3) as u8 });
        }
        if !valid(&l) {
            // outside the hypotheses: correspondence only, thinned
            skipped += 1;
            if skipped % invalid_every != 0 {
                continue;
            }
        }
        ctx.case(&l, "exhaustive", None);
    }
}

fn random_ledger(rng: &mut Rng, want_valid: bool) -> Vec<Seat> {
    let n = rng.range(2, 9) as usize;
    let levels = rng.range(1, 6) as u8;
    // small commitments force ties, odd chips and coinciding all-in levels; large ones the range
    let maxc: i64 = match rng.below(4) {
        0 => 3,
        1 => 9,
        2 => 100,
        _ => 3600,
    };
    let mut l: Vec<Seat> = (0..n)
        .map(|_| Seat {
            risked: rng.range(0, maxc) as i16,
            status: match rng.below(10) {
                0..=2 => 0,
                3..=6 => 1,
                _ => 2,
            },
            strength: rng.below(levels as u64) as u8,
        })
        .collect();
    if want_valid {
        if l.iter().all(|p| p.status == 2) {
            let i = rng.below(n as u64) as usize;
            l[i].status = rng.below(2) as u8;
        }
        // a few all-in seats share a level
        if rng.chance(1, 3) {
            let i = rng.below(n as u64) as usize;
            let j = rng.below(n as u64) as usize;
            l[j].risked = l[i].risked;
        }
        let m = l.iter().filter(|p| p.status != 2).map(|p| p.risked).max().unwrap();
        for p in l.iter_mut() {
            if p.status == 0 {
                p.risked = m;
            } else if p.status == 2 {
                p.risked = p.risked.min(m);
            }
        }
    } else if rng.chance(1, 8) {
        let i = rng.below(n as u64) as usize;
        l[i].risked = -l[i].risked.min(50);
    }
    l
}

/// showdowns between REAL evaluated hands of the same category that differ only in kickers /
/// lower cards (and exact ties): the seats' `Strength`s come from the real evaluator, the abstract
/// levels handed to the model and the oracle come from the rules (`rpharness::poker::best5`,
/// brute force over the 21 five-card subsets), never from `Strength`'s own comparator.
const SCENARIOS: [(&str, &str, &[&str]); 10] = [
    ("flush-same-top-card", "As 9s 4s Jd 3c", &["Ks 2s", "Qs Ts", "8s 7s", "6s 5s", "Kd Kc"]),
    ("flush-on-board", "As Ks 9s 4s 2s", &["Qs 3d", "Ts 3c", "3h 5d", "6h 7d", "8s 7c"]),
    ("flush-three-on-board", "Ah Kh Qh 3c 2d", &["Th 4h", "9h 8h", "7h 6h", "5h 2h", "Ac Ad"]),
    ("pair-kickers", "Ah 7d 5c 9s 2h", &["Ad Kc", "Ac Kd", "As Qd", "Kh Qc", "Jc Js"]),
    ("two-pair-kicker", "Ah Ad 7c 7s 2h", &["Kc 3d", "Qc 4d", "Kd 5h", "Jc Js", "3c 4h"]),
    ("quads-kicker", "9c 9d 9h 9s 2h", &["Ac 3d", "Kc 4d", "Ad 5h", "2c 2d", "Qc Jd"]),
    ("trips-kickers", "8c 8d 8h Ks 2h", &["Ac 3d", "Qc Jd", "Ad 4c", "Qd Tc", "7c 6d"]),
    ("full-house-second-rank", "Tc Td Th 4s 2h", &["Ac Ad", "Kc Kd", "4c 3d", "4d 5c", "2c 2d"]),
    ("high-card-kickers", "Ac Jd 8h 5s 2h", &["Kc 9d", "Kd 7c", "Qc 9h", "Kh 9s", "Qd 7h"]),
    ("straights-and-flushes", "5h 6h 7h Kc 2d", &["8h 9h", "Ah 3h", "Qh 2h", "8c 9d", "4c 8d"]),
];

fn real_hands(ctx: &mut Ctx, rng: &mut Rng, samples4: u64) {
    for (name, board, holes) in SCENARIOS.iter() {
        let b = u64::from(Hand::try_from(*board).expect("board"));
        assert!(b.count_ones() == 5, "board {board}");
        let mut seen = b;
        let mut strengths = vec![];
        let mut rules = vec![];
        for h in holes.iter() {
            let m = u64::from(Hand::try_from(*h).expect("hole"));
            assert!(m.count_ones() == 2 && m & seen == 0, "hole cards {h} overlap in {name}");
            seen |= m;
            strengths.push(Strength::from(Hand::from(b | m)));
            rules.push(poker::best5(b | m, false));
        }
        let mut distinct = rules.clone();
        distinct.sort();
        distinct.dedup();
        let level: Vec<u8> = rules.iter().map(|r| distinct.iter().position(|d| d == r).unwrap() as u8).collect();
        let k = holes.len();
        let tag = format!("real-hands/{name}");
        let mut emit = |ctx: &mut Ctx, who: &[usize], risked: &[i16], status: &[u8]| {
            let l: Vec<Seat> = (0..who.len()).map(|i| Seat { risked: risked[i], status: status[i], strength: level[who[i]] }).collect();
            if !valid(&l) {
                return;
            }
            let st: Vec<Strength> = who.iter().map(|&w| strengths[w]).collect();
            let origin = format!(" # board {board} holes {}", who.iter().map(|&w| holes[w]).collect::<Vec<_>>().join(" / "));
            let op = op_of(&l);
            ctx.case_with(&l, &tag, &st, op, &origin);
        };
        // every ordered choice of 2 and 3 distinct hands x commitments 1..=3 x statuses (valid ones)
        for n in 2..=3usize {
            let combos = 9u64.pow(n as u32);
            let mut who = vec![0usize; n];
            let total = (k as u64).pow(n as u32);
            for code in 0..total {
                let mut c = code;
                for w in who.iter_mut() {
                    *w = (c % k as u64) as usize;
                    c /= k as u64;
                }
                if (0..n).any(|i| (0..i).any(|j| who[i] == who[j])) {
                    continue;
                }
                for rs in 0..combos {
                    let mut c = rs;
                    let mut risked = vec![0i16; n];
                    let mut status = vec![0u8; n];
                    for i in 0..n {
                        risked[i] = 1 + (c % 3) as i16;
                        status[i] = (c / 3 % 3) as u8;
                        c /= 9;
                    }
                    emit(ctx, &who, &risked, &status);
                }
            }
        }
        // four and five seats: seeded random
        for _ in 0..samples4 {
            let n = rng.range(4, k as i64) as usize;
            let mut pool: Vec<usize> = (0..k).collect();
            let mut who = vec![];
            for _ in 0..n {
                who.push(pool.swap_remove(rng.below(pool.len() as u64) as usize));
            }
            let maxc = if rng.chance(1, 2) { 3 } else { 40 };
            let mut risked: Vec<i16> = (0..n).map(|_| rng.range(1, maxc) as i16).collect();
            let status: Vec<u8> = (0..n).map(|_| [0u8, 1, 1, 2][rng.below(4) as usize]).collect();
            if let Some(m) = (0..n).filter(|&i| status[i] != 2).map(|i| risked[i]).max() {
                for i in 0..n {
                    risked[i] = if status[i] == 0 { m } else { risked[i].min(m) };
                }
            }
            emit(ctx, &who, &risked, &status);
        }
    }
}

fn main() {
    let a = args();
    let mut rng = Rng::new(a.seed);
    quiet_panics();
    watchdog();
    let tabs = embeddings();
    // the oracle must reject wrong payouts of a ledger with an odd chip, three layers and folded money
    {
        let l = [
            Seat { risked: 3, status: 1, strength: 9 },
            Seat { risked: 4, status: 0, strength: 3 },
            Seat { risked: 4, status: 0, strength: 3 },
            Seat { risked: 2, status: 2, strength: 10 },
            Seat { risked: 1, status: 1, strength: 9 },
        ];
        assert!(valid(&l));
        let classes = |g: &[i16]| oracle(&l, g).into_iter().map(|x| x.0).collect::<Vec<_>>();
        assert!(classes(&[10, 1, 1, 0, 2]).is_empty(), "oracle rejects the textbook payout");
        assert!(classes(&[11, 1, 1, 0, 2]).contains(&"chips-not-conserved"));
        assert!(classes(&[9, 1, 1, 1, 2]).contains(&"folded-seat-paid"));
        assert!(classes(&[9, 1, 1, 1, 2]).contains(&"paid-without-winning-a-layer"));
        assert!(classes(&[10, 2, 0, 0, 2]).contains(&"share-outside-floor-ceil"));
        assert_eq!(classes(&[9, 1, 1, 0, 3]), vec!["merged-layer-payout-differs"]);
        assert!(classes(&[0, 1, 1, 0, 12]).contains(&"paid-above-cap"));
    }
    let mut ctx = Ctx { tabs, cycle: 0, buf: Vec::new(), run: Run::new(&a.out) };
    ctx.run.notes.push("oracle self-test: 6 wrong payouts of a 5-seat ledger rejected with the expected classes, the textbook payout accepted".into());
    let nrandom: u64 = if a.thorough() { 4_000_000 } else { 200_000 };
    ctx.run.exhaustive = true;
    ctx.run.rule = format!(
        "exhaustive: every ledger of 1..=4 seats x commitments 0..=4 x {{betting, all-in, folded}} x 3 strength levels that satisfies the property's hypotheses (a contesting seat exists, contesting non-all-in seats hold the largest contesting commitment M, folded seats <= M){}; plus {nrandom} random ledgers of 2..=9 seats, commitments up to 3/9/100/3600, 1..=6 strength levels, valid by construction; ledgers outside the hypotheses (every {}th of the enumeration, 1/8 of the random ones, some with negative commitments) go to the model-correspondence stream only; the abstract strength levels of each ledger are embedded order-isomorphically into real Strength values by one of 5 embeddings (bottom/top = minimal/maximal Strength incl. the ace-high straight flush; kickers-only differences; second-rank-only differences in TwoPair / FullHouse; strengths computed by the real evaluator from 7-card hands with the royal flush on top), cycled through the enumeration and drawn from the seeded Rng for random ledgers, the model sees only the naturals; plus showdowns between real evaluated 7-card hands of the same category differing only in kickers / lower cards or exactly tied (10 boards x 5 hole-card pairs: flushes with the same top card, pair / two pair / trips / quads kickers, full-house second rank, high card, straights), every ordered choice of 2..3 hands x commitments 1..=3 x statuses plus seeded random 4..5-seat ledgers, abstract levels ranked by the rules oracle rpharness::poker::best5; on every ledger Strength's cmp/== consistency and agreement with the abstract order are checked; non-trivial = at least two pot layers or a tie with an odd chip; distinct by the whole ledger",
        if a.thorough() { "; and of 5 seats x commitments 0..=3 x 2 strength levels" } else { "" },
        if a.thorough() { 3 } else { 7 },
    );
    let every = if a.thorough() { 3 } else { 7 };
    for n in 1..=4 {
        enumerate(&mut ctx, n, 4, 3, every);
    }
    if a.thorough() {
        enumerate(&mut ctx, 5, 3, 2, 5);
    }
    for _ in 0..nrandom {
        let l = random_ledger(&mut rng, true);
        let e = rng.below(EMBEDDINGS.len() as u64) as usize;
        ctx.case(&l, "random", Some(e));
    }
    for _ in 0..nrandom / 8 {
        let l = random_ledger(&mut rng, false);
        let e = rng.below(EMBEDDINGS.len() as u64) as usize;
        ctx.case(&l, "random", Some(e));
    }
    // the nine pinned example ledgers' shape is covered above; add the extremes of the chip type
    let big = [
        vec![Seat { risked: 16383, status: 0, strength: 3 }, Seat { risked: 16383, status: 0, strength: 3 }, Seat { risked: 1, status: 2, strength: 9 }],
        vec![Seat { risked: 10922, status: 1, strength: 5 }, Seat { risked: 10922, status: 1, strength: 5 }, Seat { risked: 10922, status: 1, strength: 5 }],
        vec![Seat { risked: 32767, status: 0, strength: 0 }, Seat { risked: 0, status: 2, strength: 1 }],
    ];
    for l in &big {
        for e in 0..EMBEDDINGS.len() {
            ctx.case(l, "extreme", Some(e));
        }
    }
    // the top of the strength order: an ace-high straight flush against quads, and alone
    let top = [
        vec![Seat { risked: 100, status: 0, strength: 1 }, Seat { risked: 100, status: 0, strength: 0 }],
        vec![Seat { risked: 100, status: 0, strength: 0 }, Seat { risked: 100, status: 0, strength: 1 }],
        vec![Seat { risked: 7, status: 1, strength: 0 }],
        vec![Seat { risked: 7, status: 1, strength: 2 }, Seat { risked: 9, status: 0, strength: 2 }, Seat { risked: 9, status: 0, strength: 1 }, Seat { risked: 4, status: 2, strength: 0 }],
    ];
    for l in &top {
        for e in 0..EMBEDDINGS.len() {
            ctx.case(l, "top-strength", Some(e));
        }
    }
    real_hands(&mut ctx, &mut rng, if a.thorough() { 40_000 } else { 4_000 });
    DONE.store(true, Ordering::SeqCst);
    ctx.run.finish();
}
