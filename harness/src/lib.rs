//! shared utilities for the per-property correspondence/search binaries
use std::collections::BTreeMap;
use std::fmt::Write as _;
use std::io::Write;

/// splitmix64: every random choice of a run derives from VERIF_SEED
#[derive(Clone)]
pub struct Rng(pub u64);
impl Rng {
    pub fn new(seed: u64) -> Self {
        Rng(seed ^ 0x9E3779B97F4A7C15)
    }
    pub fn next(&mut self) -> u64 {
        self.0 = self.0.wrapping_add(0x9E3779B97F4A7C15);
        let mut z = self.0;
        z = (z ^ (z >> 30)).wrapping_mul(0xBF58476D1CE4E5B9);
        z = (z ^ (z >> 27)).wrapping_mul(0x94D049BB133111EB);
        z ^ (z >> 31)
    }
    pub fn below(&mut self, n: u64) -> u64 {
        if n == 0 { 0 } else { self.next() % n }
    }
    pub fn range(&mut self, lo: i64, hi: i64) -> i64 {
        lo + self.below((hi - lo + 1) as u64) as i64
    }
    pub fn chance(&mut self, num: u64, den: u64) -> bool {
        self.below(den) < num
    }
    pub fn unit(&mut self) -> f64 {
        (self.next() >> 11) as f64 / (1u64 << 53) as f64
    }
    pub fn fork(&mut self) -> Rng {
        Rng(self.next())
    }
    /// k distinct card indices out of the cards set in `avail` (bitmask), as a bitmask
    pub fn cards(&mut self, k: usize, avail: u64) -> u64 {
        let mut pool: Vec<u8> = (0..64).filter(|i| avail >> i & 1 == 1).collect();
        let mut out = 0u64;
        for _ in 0..k.min(pool.len()) {
            let i = self.below(pool.len() as u64) as usize;
            out |= 1u64 << pool.swap_remove(i);
        }
        out
    }
}

pub struct Args {
    pub tier: String,
    pub seed: u64,
    pub out: String,
    pub replay: Option<String>,
}
pub fn args() -> Args {
    let mut a = Args { tier: "quick".into(), seed: 1, out: ".".into(), replay: None };
    let v: Vec<String> = std::env::args().collect();
    let mut i = 1;
    while i < v.len() {
        match v[i].as_str() {
            "--tier" => { a.tier = v[i + 1].clone(); i += 1 }
            "--seed" => { a.seed = v[i + 1].parse().expect("seed"); i += 1 }
            "--out" => { a.out = v[i + 1].clone(); i += 1 }
            "--replay" => { a.replay = Some(v[i + 1].clone()); i += 1 }
            x => panic!("unknown argument {x}"),
        }
        i += 1;
    }
    a
}
impl Args {
    pub fn thorough(&self) -> bool {
        self.tier == "thorough"
    }
}

pub fn json_str(s: &str) -> String {
    let mut o = String::from("\"");
    for c in s.chars() {
        match c {
            '"' => o.push_str("\\\""),
            '\\' => o.push_str("\\\\"),
            '\n' => o.push_str("\\n"),
            '\r' => o.push_str("\\r"),
            '\t' => o.push_str("\\t"),
            c if (c as u32) < 0x20 => { let _ = write!(o, "\\u{:04x}", c as u32); }
            c => o.push(c),
        }
    }
    o.push('"');
    o
}

/// one spec-oracle failure (implementation vs executable specification)
pub struct Failure {
    pub class: String,
    pub input: String,
    pub expected: String,
    pub got: String,
}

/// collects the two line streams and the run statistics
pub struct Run {
    ops: std::io::BufWriter<std::fs::File>,
    imp: std::io::BufWriter<std::fs::File>,
    dir: String,
    pub evaluations: u64,
    pub spec_checked: u64,
    pub nontrivial: std::collections::HashSet<u64>,
    pub distribution: BTreeMap<String, u64>,
    pub samples: Vec<String>,
    pub failures: Vec<Failure>,
    pub failure_count: u64,
    pub rule: String,
    pub exhaustive: bool,
    pub notes: Vec<String>,
    pub lines: u64,
    finished: bool,
}
impl Run {
    pub fn new(dir: &str) -> Self {
        std::fs::create_dir_all(dir).expect("out dir");
        let f = |n: &str| std::io::BufWriter::with_capacity(1 << 20, std::fs::File::create(format!("{dir}/{n}")).expect("create"));
        Run {
            ops: f("ops.txt"), imp: f("impl.txt"), dir: dir.to_string(),
            evaluations: 0, spec_checked: 0, nontrivial: Default::default(), distribution: BTreeMap::new(),
            samples: vec![], failures: vec![], failure_count: 0, rule: String::new(), exhaustive: false, notes: vec![], lines: 0, finished: false,
        }
    }
    /// one correspondence line: the operation sent to the model and the implementation's answer
    pub fn line(&mut self, op: &str, answer: &str) {
        debug_assert!(!op.contains('\n') && !answer.contains('\n'));
        writeln!(self.ops, "{op}").unwrap();
        writeln!(self.imp, "{answer}").unwrap();
        self.lines += 1;
        if self.samples.len() < 6 || (self.samples.len() < 12 && self.lines % 9973 == 0) {
            let mut s = format!("{op} => {answer}");
            if s.len() > 400 {
                let mut cut = 400;
                while !s.is_char_boundary(cut) { cut -= 1; }
                s.truncate(cut);
                s.push_str(" …");
            }
            self.samples.push(s);
        }
    }
    pub fn count(&mut self, key: &str) {
        *self.distribution.entry(key.to_string()).or_insert(0) += 1;
    }
    pub fn count_n(&mut self, key: &str, n: u64) {
        *self.distribution.entry(key.to_string()).or_insert(0) += n;
    }
    /// register a case as distinct & non-trivial (by a hash of its canonical form)
    pub fn distinct<T: std::hash::Hash>(&mut self, t: &T) {
        use std::hash::Hasher;
        let mut h = std::collections::hash_map::DefaultHasher::new();
        t.hash(&mut h);
        self.nontrivial.insert(h.finish());
    }
    pub fn fail(&mut self, class: &str, input: &str, expected: &str, got: &str) {
        self.failure_count += 1;
        if self.failures.iter().filter(|f| f.class == class).count() < 5 {
            self.failures.push(Failure { class: class.into(), input: input.into(), expected: expected.into(), got: got.into() });
        }
    }
    pub fn finish(mut self) {
        self.ops.flush().unwrap();
        self.imp.flush().unwrap();
        let mut s = String::new();
        let _ = write!(s, "{{\"evaluations\": {}, \"spec_checked\": {}, \"distinct_nontrivial\": {}, \"lines\": {}, \"exhaustive\": {}, \"rule\": {}, ",
            self.evaluations, self.spec_checked, self.nontrivial.len(), self.lines, self.exhaustive, json_str(&self.rule));
        let _ = write!(s, "\"samples\": [{}], ", self.samples.iter().map(|x| json_str(x)).collect::<Vec<_>>().join(", "));
        let _ = write!(s, "\"notes\": [{}], ", self.notes.iter().map(|x| json_str(x)).collect::<Vec<_>>().join(", "));
        let _ = write!(s, "\"distribution\": {{{}}}, ", self.distribution.iter().map(|(k, v)| format!("{}: {}", json_str(k), v)).collect::<Vec<_>>().join(", "));
        let _ = write!(s, "\"failure_count\": {}, \"spec_failures\": [{}]}}", self.failure_count,
            self.failures.iter().map(|f| format!("{{\"class\": {}, \"input\": {}, \"expected\": {}, \"got\": {}}}",
                json_str(&f.class), json_str(&f.input), json_str(&f.expected), json_str(&f.got))).collect::<Vec<_>>().join(", "));
        std::fs::write(format!("{}/stats.json", self.dir), s).expect("stats");
        self.finished = true;
    }
}
/// a harness that dies on an uncaught panic (an abort inside the implementation that no section
/// expected) still leaves the oracle failures it had recorded so far in `crash.json`
impl Drop for Run {
    fn drop(&mut self) {
        if self.finished {
            return;
        }
        let s = format!("{{\"failure_count\": {}, \"lines\": {}, \"spec_failures\": [{}]}}", self.failure_count, self.lines,
            self.failures.iter().map(|f| format!("{{\"class\": {}, \"input\": {}, \"expected\": {}, \"got\": {}}}",
                json_str(&f.class), json_str(&f.input), json_str(&f.expected), json_str(&f.got))).collect::<Vec<_>>().join(", "));
        let _ = std::fs::write(format!("{}/crash.json", self.dir), s);
    }
}

/// run a closure, mapping a panic to None (the default panic hook is silenced once)
pub fn quiet_panics() {
    if std::env::var("VERIF_LOUD").is_ok() {
        return;
    }
    std::panic::set_hook(Box::new(|_| {}));
}
pub fn catch<T>(f: impl FnOnce() -> T + std::panic::UnwindSafe) -> Option<T> {
    std::panic::catch_unwind(f).ok()
}

/// true when built without debug assertions (the `nodebug` stream)
pub fn is_nodebug() -> bool {
    !cfg!(debug_assertions)
}

pub fn is_shortdeck() -> bool {
    cfg!(feature = "shortdeck")
}

/// Independent poker-rules oracle (written from the rules, not from the engine):
/// best five-card hand of 5..7 cards as a totally ordered key.
pub mod poker {
    /// category indices in *rules* order for the standard deck:
    /// 0 high card, 1 pair, 2 two pair, 3 trips, 4 straight, 5 flush, 6 full house, 7 quads, 8 straight flush.
    /// In the short-deck build flush (6) outranks full house (5).
    pub fn value5(cards: &[u8; 5], short: bool) -> (u8, [u8; 5]) {
        let mut ranks: Vec<u8> = cards.iter().map(|c| c / 4).collect();
        ranks.sort_unstable_by(|a, b| b.cmp(a));
        let flush = cards.iter().all(|c| c % 4 == cards[0] % 4);
        let mut cnt = [0u8; 13];
        for r in &ranks {
            cnt[*r as usize] += 1;
        }
        // groups ordered by (multiplicity, rank) descending
        let mut groups: Vec<(u8, u8)> = (0..13u8).filter(|r| cnt[*r as usize] > 0).map(|r| (cnt[r as usize], r)).collect();
        groups.sort_unstable_by(|a, b| b.cmp(a));
        let distinct = groups.len() == 5;
        let mut straight_top: Option<u8> = None;
        if distinct {
            if ranks[0] - ranks[4] == 4 {
                straight_top = Some(ranks[0]);
            } else if !short && ranks == vec![12, 3, 2, 1, 0] {
                straight_top = Some(3); // A-2-3-4-5, five high
            } else if short && ranks == vec![12, 7, 6, 5, 4] {
                straight_top = Some(7); // A-6-7-8-9, nine high
            }
        }
        let mut tb = [0u8; 5];
        for (i, g) in groups.iter().enumerate() {
            tb[i] = g.1 + 1;
        }
        let (fh, fl) = if short { (5, 6) } else { (6, 5) };
        let cat = if let (Some(t), true) = (straight_top, flush) {
            tb = [t + 1, 0, 0, 0, 0];
            8
        } else if groups[0].0 == 4 {
            7
        } else if groups[0].0 == 3 && groups[1].0 == 2 {
            fh
        } else if flush {
            fl
        } else if let Some(t) = straight_top {
            tb = [t + 1, 0, 0, 0, 0];
            4
        } else if groups[0].0 == 3 {
            3
        } else if groups[0].0 == 2 && groups[1].0 == 2 {
            2
        } else if groups[0].0 == 2 {
            1
        } else {
            0
        };
        (cat, tb)
    }
    /// best five of the cards set in `hand` (5..=7 cards), by enumeration of all 5-subsets
    pub fn best5(hand: u64, short: bool) -> (u8, [u8; 5]) {
        let cards: Vec<u8> = (0..52u8).filter(|c| hand >> c & 1 == 1).collect();
        let n = cards.len();
        assert!((5..=7).contains(&n));
        let mut best = (0u8, [0u8; 5]);
        let mut first = true;
        for a in 0..n {
            for b in a + 1..n {
                for c in b + 1..n {
                    for d in c + 1..n {
                        for e in d + 1..n {
                            let v = value5(&[cards[a], cards[b], cards[c], cards[d], cards[e]], short);
                            if first || v > best {
                                best = v;
                                first = false;
                            }
                        }
                    }
                }
            }
        }
        best
    }
}

/// Watchdog for calls into the real code that may not terminate: `enter(op)` before the call,
/// `leave()` after. If one call stays in progress longer than the limit, the watchdog writes
/// `<out>/hang.json` naming the operation and exits the process with status 4; `./check` reports
/// it as a failing input of class `does-not-terminate`.
pub struct Watch {
    cur: std::sync::Arc<std::sync::Mutex<Option<(String, std::time::Instant)>>>,
}
impl Watch {
    pub fn start(out_dir: &str, limit_s: u64) -> Watch {
        let cur: std::sync::Arc<std::sync::Mutex<Option<(String, std::time::Instant)>>> = Default::default();
        let c2 = cur.clone();
        let dir = out_dir.to_string();
        std::thread::spawn(move || loop {
            std::thread::sleep(std::time::Duration::from_millis(500));
            let g = c2.lock().unwrap();
            if let Some((op, t)) = g.as_ref() {
                if t.elapsed().as_secs() >= limit_s {
                    let _ = std::fs::write(
                        format!("{dir}/hang.json"),
                        format!("{{\"class\": \"does-not-terminate\", \"input\": {}, \"expected\": \"the call returns\", \"got\": \"still running after {} s\"}}", json_str(op), limit_s),
                    );
                    std::process::exit(4);
                }
            }
        });
        Watch { cur }
    }
    pub fn enter(&self, op: &str) {
        *self.cur.lock().unwrap() = Some((op.to_string(), std::time::Instant::now()));
    }
    pub fn leave(&self) {
        *self.cur.lock().unwrap() = None;
    }
}
