// shared by the C17 and C18 binaries (included with #[path]): scratch directory handling, table
// construction through the public constructors / guarded hooks, canonical forms, an independent
// reader of PostgreSQL binary COPY streams in the style of `Writer::stream`.
#![allow(dead_code)]
use robopoker::cards::hand::Hand;
use robopoker::cards::isomorphism::Isomorphism;
use robopoker::cards::observation::Observation;
use robopoker::cards::street::Street;
use robopoker::clustering::abstraction::Abstraction;
use robopoker::clustering::histogram::Histogram;
use robopoker::clustering::lookup::Lookup;
use robopoker::clustering::metric::Metric;
use robopoker::clustering::pair::Pair;
use robopoker::clustering::transitions::Decomp;
use robopoker::mccfr::bucket::Bucket;
use robopoker::mccfr::edge::Edge;
use robopoker::mccfr::odds::Odds;
use robopoker::mccfr::path::Path;
use robopoker::mccfr::profile::Profile;
use robopoker::save::upload::Table;
use rpharness::Rng;
use std::collections::BTreeMap;
use std::path::PathBuf;

pub fn fnv(bytes: &[u8]) -> u64 {
    let mut h: u64 = 0xcbf29ce484222325;
    for b in bytes {
        h ^= *b as u64;
        h = h.wrapping_mul(0x100000001b3);
    }
    h
}
pub fn fnv_rows(rows: &[Vec<u64>]) -> u64 {
    let mut h: u64 = 0xcbf29ce484222325;
    for r in rows {
        for v in r {
            for b in v.to_be_bytes() {
                h ^= b as u64;
                h = h.wrapping_mul(0x100000001b3);
            }
        }
    }
    h
}
pub fn hex(bytes: &[u8]) -> String {
    let mut s = String::with_capacity(bytes.len() * 2);
    for b in bytes {
        s.push_str(&format!("{:02x}", b));
    }
    s
}

/// per-run scratch directory: the real save()/load() use `<cwd>/pgcopy/<name>[.<street>]`
pub struct Scratch {
    pub dir: PathBuf,
}
impl Scratch {
    pub fn new(out: &str) -> Self {
        let dir = PathBuf::from(out).join("scratch");
        let _ = std::fs::remove_dir_all(&dir);
        std::fs::create_dir_all(dir.join("pgcopy")).expect("scratch dir");
        std::env::set_current_dir(&dir).expect("chdir into scratch");
        Scratch { dir }
    }
    /// a second (third, ...) scratch directory next to the first; does not change the cwd
    pub fn open(out: &str, name: &str) -> Self {
        let dir = PathBuf::from(out).join(name);
        let _ = std::fs::remove_dir_all(&dir);
        std::fs::create_dir_all(dir.join("pgcopy")).expect("scratch dir");
        Scratch { dir }
    }
    /// make this directory the process's working directory
    pub fn enter(&self) {
        std::env::set_current_dir(&self.dir).expect("chdir into scratch");
    }
    pub fn clean(&self) {
        for e in std::fs::read_dir(self.dir.join("pgcopy")).expect("read scratch") {
            let _ = std::fs::remove_file(e.expect("entry").path());
        }
    }
    /// the files present, sorted by name
    pub fn files(&self) -> Vec<(String, Vec<u8>)> {
        let mut v: Vec<(String, Vec<u8>)> = std::fs::read_dir(self.dir.join("pgcopy"))
            .expect("read scratch")
            .map(|e| e.expect("entry"))
            .map(|e| (e.file_name().to_string_lossy().into_owned(), std::fs::read(e.path()).expect("read file")))
            .collect();
        v.sort();
        v
    }
    pub fn write(&self, name: &str, bytes: &[u8]) {
        std::fs::write(self.dir.join("pgcopy").join(name), bytes).expect("write file");
    }
}

pub fn street_of_suffix(s: &str) -> Option<Street> {
    match s {
        "preflop" => Some(Street::Pref),
        "flop" => Some(Street::Flop),
        "turn" => Some(Street::Turn),
        "river" => Some(Street::Rive),
        _ => None,
    }
}
pub fn street_index(s: Street) -> u64 {
    match s {
        Street::Pref => 0,
        Street::Flop => 1,
        Street::Turn => 2,
        Street::Rive => 3,
    }
}
pub const STREETS: [Street; 4] = [Street::Pref, Street::Flop, Street::Turn, Street::Rive];

// ------------------------------------------------------------------ generators

pub const SPECIAL_F32: [u32; 22] = [
    0x0000_0000, 0x8000_0000, 0x3f80_0000, 0xbf80_0000, 0x7f80_0000, 0xff80_0000, 0x7fc0_0000, 0xffc0_0000,
    0x7f80_0001, 0xff80_0001, 0x7fff_ffff, 0xffff_ffff, 0x7fc1_2345, 0x7fa5_5aa5, 0x7f7f_ffff, 0xff7f_ffff,
    0x0080_0000, 0x8080_0000, 0x0000_0001, 0x8000_0001, 0x007f_ffff, 0xc892_7c00, /* -3e5 = REGRET_MIN */
];
pub fn any_f32(rng: &mut Rng) -> u32 {
    match rng.below(4) {
        0 => SPECIAL_F32[rng.below(SPECIAL_F32.len() as u64) as usize],
        1 => rng.next() as u32,
        2 => ((rng.unit() * 2.0 - 1.0) as f32 * 3e5).to_bits(),
        _ => (rng.unit() as f32).to_bits(),
    }
}
pub fn all_edges() -> Vec<Edge> {
    let mut v = vec![Edge::Draw, Edge::Fold, Edge::Check, Edge::Call, Edge::Shove];
    for o in Odds::GRID.iter() {
        v.push(Edge::Raise(*o));
    }
    // odds outside the grid still have a u64 code (8 bits per component)
    v.push(Edge::Raise(Odds(255, 255)));
    v.push(Edge::Raise(Odds(0, 1)));
    v.push(Edge::Raise(Odds(7, 200)));
    v
}
pub fn any_edge(rng: &mut Rng) -> Edge {
    let v = all_edges();
    if rng.chance(1, 8) {
        Edge::Raise(Odds(rng.below(256) as i16, rng.below(256) as i16))
    } else {
        v[rng.below(v.len() as u64) as usize]
    }
}
pub fn any_path(rng: &mut Rng) -> Path {
    match rng.below(4) {
        0 => Path::from(rng.next()),
        1 => Path::from(0u64),
        _ => {
            // a sequence of 0..16 edge nibbles (1..=15), as Path::from(Vec<Edge>) packs them
            let n = rng.below(17);
            let mut bits = 0u64;
            for i in 0..n {
                bits |= (1 + rng.below(15)) << (4 * i);
            }
            Path::from(bits)
        }
    }
}
pub fn any_abstraction(rng: &mut Rng, street: Option<Street>) -> Abstraction {
    let s = street.unwrap_or(STREETS[rng.below(4) as usize]);
    if rng.chance(1, 4) {
        // raw code: street tag in the top byte, anything below
        Abstraction::from((street_index(s) << 56) | (rng.next() >> 8))
    } else {
        Abstraction::from((s, rng.below(4096) as usize))
    }
}
pub fn any_bucket(rng: &mut Rng) -> Bucket {
    Bucket::from((any_path(rng), any_abstraction(rng, None), any_path(rng)))
}
pub fn any_isomorphism(rng: &mut Rng, street: Street) -> Isomorphism {
    let full = u64::from(Hand::from(Hand::mask()));
    let pocket = rng.cards(2, full);
    let n = match street {
        Street::Pref => 0,
        Street::Flop => 3,
        Street::Turn => 4,
        Street::Rive => 5,
    };
    let public = rng.cards(n, full & !pocket);
    Isomorphism::from(Observation::from((Hand::from(pocket), Hand::from(public))))
}

/// a transitions table with about `n` (from, into) rows, `from` drawn from `nfrom` abstractions
pub fn any_decomp(rng: &mut Rng, street: Street, n: usize, nfrom: u64) -> BTreeMap<Abstraction, Histogram> {
    let next = match street {
        Street::Pref => Street::Flop,
        Street::Flop => Street::Turn,
        _ => Street::Rive,
    };
    let mut m = BTreeMap::new();
    let mut total = 0;
    while total < n {
        let from = Abstraction::from((street, rng.below(nfrom) as usize));
        let k = 1 + rng.below(6) as usize;
        let support: Vec<Abstraction> = (0..k).map(|_| Abstraction::from((next, rng.below(128) as usize))).collect();
        let draws = 1 + rng.below(40);
        let v: Vec<Abstraction> = (0..draws).map(|_| support[rng.below(k as u64) as usize]).collect();
        let h = Histogram::from(v);
        total += h.n();
        m.insert(from, h);
    }
    m
}


/// a transitions table with at least `n` (prev, next) rows; `prev` codes are raw (the 12-bit index of
/// `Abstraction::from((street, i))` gives only 4096 of them)
pub fn many_decomp(rng: &mut Rng, street: Street, n: usize) -> BTreeMap<Abstraction, Histogram> {
    let next = match street {
        Street::Pref => Street::Flop,
        Street::Flop => Street::Turn,
        _ => Street::Rive,
    };
    let mut m: BTreeMap<Abstraction, Histogram> = BTreeMap::new();
    let mut total = 0;
    while total < n {
        let from = Abstraction::from((street_index(street) << 56) | (rng.next() >> 8));
        let k = 1 + rng.below(30) as usize;
        let support: Vec<Abstraction> = (0..k).map(|_| Abstraction::from((next, rng.below(100) as usize))).collect();
        let v: Vec<Abstraction> = (0..2 * k).map(|_| support[rng.below(k as u64) as usize]).collect();
        let h = Histogram::from(v);
        if !m.contains_key(&from) {
            total += h.n();
            m.insert(from, h);
        }
    }
    m
}

// ------------------------------------------------------------------ tables and their code forms

/// rows (past, present, future, edge, regret bits, policy bits) in the profile's own iteration order
pub fn profile_rows(p: &Profile) -> Vec<Vec<u64>> {
    let mut v = vec![];
    for (b, s) in p.verif_buckets() {
        for (e, r, q) in s {
            v.push(vec![u64::from(b.0), u64::from(b.1), u64::from(b.2), u64::from(e), r.to_bits() as u64, q.to_bits() as u64]);
        }
    }
    v
}
pub fn profile_typed(p: &Profile) -> Vec<(Bucket, Edge, u32, u32)> {
    let mut v = vec![];
    for (b, s) in p.verif_buckets() {
        for (e, r, q) in s {
            v.push((b, e, r.to_bits(), q.to_bits()));
        }
    }
    v
}
pub fn build_profile(rows: &[(Bucket, Edge, u32, u32)]) -> Profile {
    let mut p = Profile::default();
    for (b, e, r, q) in rows {
        p.verif_set_memory(b, e, f32::from_bits(*r), f32::from_bits(*q));
    }
    p
}
/// the table a list of (bucket, edge, regret, policy) assignments describes: the later assignment
/// to the same (bucket, edge) wins; order = the nested map's iteration order
pub fn intended_profile(rows: &[(Bucket, Edge, u32, u32)]) -> Vec<(Bucket, Edge, u32, u32)> {
    let mut m: BTreeMap<(Bucket, Edge), (u32, u32)> = BTreeMap::new();
    for (b, e, r, q) in rows {
        m.insert((*b, *e), (*r, *q));
    }
    m.into_iter().map(|((b, e), (r, q))| (b, e, r, q)).collect()
}
pub fn typed_rows(t: &[(Bucket, Edge, u32, u32)]) -> Vec<Vec<u64>> {
    t.iter().map(|(b, e, r, q)| vec![u64::from(b.0), u64::from(b.1), u64::from(b.2), u64::from(*e), *r as u64, *q as u64]).collect()
}
/// a profile whose values are reached the way training reaches them — `add_regret` / `add_policy`
/// on entries created with zeros — and NOT through `Memory::set_regret` / `set_policy`.
/// Returns the profile and the values it must hold, tracked here in f32 arithmetic:
/// in the explore phase `add_regret` does `regret = regret * 1 + value`, `add_policy` does
/// `policy = policy * d + value` with a finite d (so from 0: `0 + value`).
pub fn build_profile_by_updates(rng: &mut Rng, targets: &[(Bucket, Edge, u32, u32)]) -> (Profile, Vec<(Bucket, Edge, u32, u32)>) {
    use robopoker::mccfr::policy::Policy;
    use robopoker::mccfr::regret::Regret;
    use std::hint::black_box as bb;
    let targets = intended_profile(targets);
    let mut p = Profile::default();
    for (b, e, _, _) in &targets {
        p.verif_set_memory(b, e, 0.0, 0.0);
    }
    p.verif_set_epochs(robopoker::verif::CFR_DISCOUNT_PHASE); // explore phase: no regret discount
    let mut tracked = vec![];
    for (b, e, r, q) in &targets {
        let r = f32::from_bits(*r);
        let steps: Vec<f32> = match rng.below(3) {
            0 => vec![r],
            1 => vec![r * 0.5, r * 0.5],
            _ => vec![r * 0.25, r * 0.5, r * 0.25, -2.5e5, -2.5e5],
        };
        let mut acc = 0.0f32;
        for s in steps {
            p.add_regret(b, &Regret::from([(*e, s)].into_iter().collect::<BTreeMap<_, _>>()));
            acc = bb(bb(acc) * bb(1.0f32)) + bb(s);
        }
        let q = f32::from_bits(*q);
        p.add_policy(b, &Policy::from([(*e, q)].into_iter().collect::<BTreeMap<_, _>>()));
        let accq = bb(0.0f32) + bb(q);
        tracked.push((*b, *e, acc.to_bits(), accq.to_bits()));
    }
    (p, tracked)
}
/// the map a list of (key, value) assignments describes
pub fn intended_metric(rows: &[(u64, u32)]) -> Vec<Vec<u64>> {
    let mut m: BTreeMap<u64, u32> = BTreeMap::new();
    for (k, v) in rows {
        m.insert(*k, *v);
    }
    m.into_iter().map(|(k, v)| vec![k, v as u64]).collect()
}
pub fn metric_rows(m: &Metric) -> Vec<Vec<u64>> {
    m.verif_entries().into_iter().map(|(p, d)| vec![i64::from(p) as u64, d.to_bits() as u64]).collect()
}
pub fn metric_typed(m: &Metric) -> Vec<(Pair, u32)> {
    m.verif_entries().into_iter().map(|(p, d)| (p, d.to_bits())).collect()
}
pub fn build_metric(rows: &[(u64, u32)]) -> Metric {
    Metric::verif_raw(rows.iter().map(|(k, v)| (Pair::from(*k as i64), f32::from_bits(*v))).collect::<BTreeMap<_, _>>())
}
pub fn lookup_rows(m: &BTreeMap<Isomorphism, Abstraction>) -> Vec<Vec<u64>> {
    m.iter().map(|(i, a)| vec![i64::from(*i) as u64, i64::from(*a) as u64]).collect()
}
/// rows (prev, next, density bits) the way `Decomp::save` walks them
pub fn decomp_rows(m: &BTreeMap<Abstraction, Histogram>) -> Vec<Vec<u64>> {
    let mut v = vec![];
    for (from, h) in m.iter() {
        for into in h.support() {
            v.push(vec![i64::from(*from) as u64, i64::from(*into) as u64, h.density(into).to_bits() as u64]);
        }
    }
    v
}

pub fn sorted(mut rows: Vec<Vec<u64>>) -> Vec<Vec<u64>> {
    rows.sort();
    rows
}
pub fn flat(rows: &[Vec<u64>]) -> String {
    rows.iter().flat_map(|r| r.iter().map(|v| v.to_string())).collect::<Vec<_>>().join(" ")
}

// ------------------------------------------------------------------ independent COPY reader

#[derive(Clone, Debug, PartialEq)]
pub enum Field {
    F32(u32),
    I64(u64),
}
impl Field {
    pub fn bits(&self) -> u64 {
        match self {
            Field::F32(x) => *x as u64,
            Field::I64(x) => *x,
        }
    }
    pub fn len(&self) -> usize {
        match self {
            Field::F32(_) => 4,
            Field::I64(_) => 8,
        }
    }
}
/// PostgreSQL binary COPY file format (docs, "Binary Format"): 11-byte signature, 32-bit flags
/// (none set), 32-bit header-extension length (0), tuples: 16-bit field count then per field a
/// 32-bit length and that many bytes; file trailer: a 16-bit word -1; nothing may follow.
/// Fields are told apart by their length exactly as `Writer::stream` does: 4 => f32, 8 => i64.
pub fn pg_read(bytes: &[u8]) -> Result<Vec<Vec<Field>>, String> {
    const SIG: &[u8; 11] = b"PGCOPY\n\xff\r\n\0";
    if bytes.len() < 19 {
        return Err(format!("file of {} bytes has no complete header", bytes.len()));
    }
    if &bytes[0..11] != SIG {
        return Err("signature".into());
    }
    if bytes[11..15] != [0, 0, 0, 0] {
        return Err("flags field not zero".into());
    }
    if bytes[15..19] != [0, 0, 0, 0] {
        return Err("header extension length not zero".into());
    }
    let mut at = 19;
    let mut rows = vec![];
    loop {
        if at + 2 > bytes.len() {
            return Err(format!("no trailer: data ends at byte {at}"));
        }
        let n = u16::from_be_bytes([bytes[at], bytes[at + 1]]);
        at += 2;
        if n == 0xFFFF {
            if at != bytes.len() {
                return Err(format!("{} bytes after the trailer", bytes.len() - at));
            }
            return Ok(rows);
        }
        let mut row = vec![];
        for _ in 0..n {
            if at + 4 > bytes.len() {
                return Err(format!("field length cut at byte {at}"));
            }
            let len = u32::from_be_bytes([bytes[at], bytes[at + 1], bytes[at + 2], bytes[at + 3]]) as usize;
            at += 4;
            if at + len > bytes.len() && (len == 4 || len == 8) {
                return Err(format!("field payload cut at byte {at}"));
            }
            match len {
                4 => row.push(Field::F32(u32::from_be_bytes([bytes[at], bytes[at + 1], bytes[at + 2], bytes[at + 3]]))),
                8 => {
                    let mut b = [0u8; 8];
                    b.copy_from_slice(&bytes[at..at + 8]);
                    row.push(Field::I64(u64::from_be_bytes(b)))
                }
                x => return Err(format!("unsupported field length {x} at byte {}", at - 4)),
            }
            at += len;
        }
        rows.push(row);
    }
}

/// column names of a `COPY <table> ( a, b, c ) FROM STDIN BINARY` statement
pub fn copy_columns(copy: &str) -> Vec<String> {
    let inner = copy.split('(').nth(1).unwrap_or("").split(')').next().unwrap_or("");
    inner.split(',').map(|s| s.trim().to_string()).filter(|s| !s.is_empty()).collect()
}
/// (name, sql type) of a CREATE TABLE statement
pub fn create_columns(sql: &str) -> Vec<(String, String)> {
    let inner = sql.split('(').nth(1).unwrap_or("").split(')').next().unwrap_or("");
    inner
        .split(',')
        .map(|s| s.split_whitespace().map(|w| w.to_string()).collect::<Vec<_>>())
        .filter(|w| w.len() == 2)
        .map(|w| (w[0].clone(), w[1].to_uppercase()))
        .collect()
}
/// width in bytes of a declared column type (as printed by tokio_postgres: int8, float4)
pub fn type_width(name: &str) -> Option<usize> {
    match name.to_lowercase().as_str() {
        "int8" | "bigint" => Some(8),
        "float4" | "real" => Some(4),
        _ => None,
    }
}
/// declared layout of a table: (COPY column names, columns() type names, CREATE TABLE columns)
pub fn declared<T: Table>() -> (Vec<String>, Vec<String>, Vec<(String, String)>) {
    (copy_columns(&T::copy()), T::columns().iter().map(|t| t.to_string()).collect(), create_columns(&T::creates()))
}

pub fn table_name<T: Table>() -> String {
    T::name()
}
pub fn profile_load() -> Profile {
    Profile::load(Street::Rive)
}
pub fn metric_load(s: Street) -> Metric {
    Metric::load(s)
}
pub fn lookup_load(s: Street) -> Lookup {
    Lookup::load(s)
}
pub fn decomp_load(s: Street) -> Decomp {
    Decomp::load(s)
}
pub fn save<T: Table>(t: &T) {
    t.save()
}
