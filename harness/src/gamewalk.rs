// shared by c02.rs / c03.rs / c14.rs (included with #[path]): driving the real `Game`,
// canonical state lines (same format as lean/RP/Driver/GameOps.lean), forced deals and
// random histories over legal() ∪ every raise size.
#![allow(dead_code)]
use robopoker::cards::hand::Hand;
use robopoker::cards::hole::Hole;
use robopoker::cards::strength::Strength;
use robopoker::gameplay::action::Action;
use robopoker::gameplay::game::Game;
use robopoker::gameplay::ply::Turn;
use robopoker::gameplay::seat::State;
use rpharness::Rng;

/// "ask the same question under different ambient conditions": a discarding logger whose level
/// can be switched to Trace (code guarded by `log_enabled!` then runs), and fresh threads
pub mod ambient {
    struct Discard;
    impl log::Log for Discard {
        fn enabled(&self, _: &log::Metadata) -> bool {
            true
        }
        fn log(&self, r: &log::Record) {
            // format the arguments (Display impls of the engine run), then drop the text
            let _ = std::hint::black_box(format!("{}", r.args()).len());
        }
        fn flush(&self) {}
    }
    static LOGGER: Discard = Discard;
    /// install the logger once; logging stays off until `with_trace`
    pub fn install() {
        let _ = log::set_logger(&LOGGER);
        log::set_max_level(log::LevelFilter::Off);
    }
    /// run `f` with TRACE logging enabled (f must not unwind: wrap panicking calls in `catch`)
    pub fn with_trace<T>(f: impl FnOnce() -> T) -> T {
        log::set_max_level(log::LevelFilter::Trace);
        let r = f();
        log::set_max_level(log::LevelFilter::Off);
        r
    }
    /// run `f` on a freshly spawned thread (fresh thread-locals: rng, draw-index override)
    pub fn in_thread<T: Send + 'static>(f: impl FnOnce() -> T + Send + 'static) -> Option<T> {
        std::thread::spawn(f).join().ok()
    }
}

/// a card set containing card `n` verbatim (`Hand::from(u64)` would mask it away when it is not a
/// card of the configured deck), plus the cards of `rest`
pub fn hand_with_raw_card(rest: u64, n: u8) -> Hand {
    use robopoker::cards::card::Card;
    let extra = Hand::from(Card::from(n));
    if bits(hand(rest)) & bits(extra) != 0 { extra } else { Hand::add(hand(rest), extra) }
}

pub fn hand(mask: u64) -> Hand {
    Hand::from(mask)
}
pub fn bits(h: Hand) -> u64 {
    u64::from(h)
}
pub fn board_bits(g: &Game) -> u64 {
    let gg = *g;
    // `Hand::from(Board)` asserts on a corrupt board: u64::MAX marks it
    rpharness::catch(move || bits(Hand::from(gg.board()))).unwrap_or(u64::MAX)
}

pub fn act_tok(a: &Action) -> String {
    match a {
        Action::Fold => "f".into(),
        Action::Check => "x".into(),
        Action::Call(n) => format!("c{n}"),
        Action::Raise(n) => format!("r{n}"),
        Action::Shove(n) => format!("s{n}"),
        Action::Blind(n) => format!("b{n}"),
        Action::Draw(h) => format!("d{}", bits(*h)),
    }
}
pub fn legal_tok(a: &Action) -> String {
    match a {
        Action::Draw(_) => "D".into(),
        a => act_tok(a),
    }
}
pub fn hist_tok(h: &[Action]) -> String {
    h.iter().map(act_tok).collect::<Vec<_>>().join(" ")
}
pub fn state_char(s: State) -> char {
    match s {
        State::Betting => 'B',
        State::Shoving => 'S',
        State::Folding => 'F',
    }
}
pub fn turn_tok(t: Turn) -> String {
    match t {
        Turn::Terminal => "T".into(),
        Turn::Chance => "C".into(),
        Turn::Choice(i) => format!("P{i}"),
    }
}

/// `pot stack0 stack1 stake0 stake1 spent0 spent1 <st0><st1> ticker street turn board L=<legal>`
fn state_line_raw(g: &Game) -> String {
    let s = g.verif_seats();
    let legal = g.legal().iter().map(legal_tok).collect::<Vec<_>>().join(",");
    format!(
        "{} {} {} {} {} {} {} {}{} {} {} {} {} L={}",
        g.pot(), s[0].1, s[1].1, s[0].2, s[1].2, s[0].3, s[1].3,
        state_char(s[0].0), state_char(s[1].0), g.verif_ticker(), g.street() as isize,
        turn_tok(g.turn()), board_bits(g), legal
    )
}

/// `state_line` of a state that may be corrupt (reached through a transition that should not
/// exist): rendering must not take the harness down
pub fn safe_state_line(g: &Game) -> String {
    state_line(g)
}

/// canonical state line; never panics: a state whose accessors panic (`legal()` asserting, a
/// corrupt board …) is rendered as far as possible and marked
pub fn state_line(g: &Game) -> String {
    let gg = *g;
    rpharness::catch(move || state_line_raw(&gg)).unwrap_or_else(|| {
        let gg = *g;
        rpharness::catch(move || {
            let s = gg.verif_seats();
            let t = { let g3 = gg; rpharness::catch(move || turn_tok(g3.turn())).unwrap_or("turn-panics".into()) };
            format!("corrupt state: pot {} stacks [{}, {}] stakes [{}, {}] spent [{}, {}] ticker {} turn {} (rendering the rest panics)",
                gg.pot(), s[0].1, s[1].1, s[0].2, s[1].2, s[0].3, s[1].3, gg.verif_ticker(), t)
        }).unwrap_or_else(|| "corrupt state (every accessor panics)".into())
    })
}

/// a forced deal: the two holes and the cards of the three board streets
#[derive(Clone, Debug)]
pub struct Deal {
    pub h0: u64,
    pub h1: u64,
    pub streets: [u64; 3],
    pub class: &'static str, // seat0-wins / seat1-wins / tie (at showdown with the full board)
}
impl Deal {
    pub fn board(&self) -> u64 {
        self.streets[0] | self.streets[1] | self.streets[2]
    }
}

pub fn root_with(h0: u64, h1: u64) -> Game {
    Game::root().verif_with_holes(&[Hole::from(hand(h0)), Hole::from(hand(h1))])
}

pub fn strength_of(cards: u64) -> Strength {
    Strength::from(hand(cards))
}

/// order-isomorphic ranks (0/1) of the two seats' strengths on the current board
pub fn ranks(g: &Game) -> (u8, u8) {
    let s = g.verif_seats();
    let b = board_bits(g);
    let a = strength_of(bits(Hand::from(s[0].4)) | b);
    let c = strength_of(bits(Hand::from(s[1].4)) | b);
    match a.cmp(&c) {
        std::cmp::Ordering::Greater => (1, 0),
        std::cmp::Ordering::Less => (0, 1),
        std::cmp::Ordering::Equal => (1, 1),
    }
}

/// order of the two seats' best five cards by the *rules* evaluator (`rpharness::poker::best5`,
/// brute force over all 5-subsets; independent of the engine's `Strength`). Needs a full board.
pub fn rules_ranks(h0: u64, h1: u64, board: u64) -> (u8, u8) {
    let short = rpharness::is_shortdeck();
    let a = rpharness::poker::best5(h0 | board, short);
    let b = rpharness::poker::best5(h1 | board, short);
    match a.cmp(&b) {
        std::cmp::Ordering::Greater => (1, 0),
        std::cmp::Ordering::Less => (0, 1),
        std::cmp::Ordering::Equal => (1, 1),
    }
}

fn classify(h0: u64, h1: u64, board: u64) -> &'static str {
    let short = rpharness::is_shortdeck();
    match rpharness::poker::best5(h0 | board, short).cmp(&rpharness::poker::best5(h1 | board, short)) {
        std::cmp::Ordering::Greater => "seat0-wins",
        std::cmp::Ordering::Less => "seat1-wins",
        std::cmp::Ordering::Equal => "tie",
    }
}

fn card(rank: u64, suit: u64) -> u64 {
    1u64 << (4 * rank + suit)
}

/// crafted deals (one per class at least) followed by random ones; every card inside `full`
pub fn make_deals(rng: &mut Rng, n: usize) -> Vec<Deal> {
    let full = bits(hand(Hand::mask()));
    let mut out = vec![];
    // ranks 0..12 = 2..A ; the short deck keeps ranks >= 4 (six and up)
    let (a, k, q, j, t, n9, n8, n7, n6) = (12, 11, 10, 9, 8, 7, 6, 5, 4);
    let (n5, n4, n3, n2) = (3u64, 2u64, 1u64, 0u64); // 5, 4, 3, 2: standard deck only
    let mut crafted: Vec<(u64, u64, [u64; 3])> = vec![
        // aces vs seven-six on a dry board: seat 0 wins
        (card(a, 0) | card(a, 1), card(n7, 2) | card(n6, 3), [card(k, 0) | card(n9, 1) | card(t, 2), card(q, 3), card(n8, 0)]),
        // mirrored: seat 1 wins
        (card(n7, 2) | card(n6, 3), card(a, 0) | card(a, 1), [card(k, 0) | card(n9, 1) | card(t, 2), card(q, 3), card(n8, 0)]),
        // broadway straight on the board, nobody improves: tie (the board is the best hand)
        (card(n7, 0) | card(n6, 1), card(n7, 2) | card(n6, 3), [card(a, 0) | card(k, 1) | card(q, 2), card(j, 3), card(t, 0)]),
        // same pocket ranks, no flush: tie
        (card(a, 0) | card(k, 1), card(a, 2) | card(k, 3), [card(n9, 0) | card(n8, 1) | card(n6, 2), card(q, 3), card(n7, 3)]),
        // flush over straight
        (card(a, 0) | card(n6, 0), card(j, 1) | card(t, 2), [card(n9, 0) | card(n8, 0) | card(n7, 0), card(q, 3), card(k, 1)]),
        // ---- the top of the ladder
        // royal flush on the board: tie with the maximal strength
        (card(n7, 0) | card(n6, 1), card(n8, 2) | card(n6, 3), [card(t, 3) | card(j, 3) | card(q, 3), card(k, 3), card(a, 3)]),
        // royal flush dealt flop-first the other way round (ace on the flop)
        (card(n9, 0) | card(n9, 1), card(n8, 0) | card(n8, 1), [card(a, 2) | card(k, 2) | card(q, 2), card(j, 2), card(t, 2)]),
        // royal flush with seat 0's hole cards against quad nines
        (card(a, 3) | card(k, 3), card(n9, 0) | card(n9, 3), [card(q, 3) | card(j, 3) | card(t, 3), card(n9, 1), card(n9, 2)]),
        // mirrored: seat 1 holds the royal flush
        (card(n9, 0) | card(n9, 3), card(a, 3) | card(k, 3), [card(q, 3) | card(j, 3) | card(t, 3), card(n9, 1), card(n9, 2)]),
        // royal flush against the queen-high straight flush of the same suit
        (card(a, 1) | card(k, 1), card(n9, 1) | card(n8, 1), [card(q, 1) | card(j, 1) | card(t, 1), card(n7, 0), card(n6, 2)]),
        (card(n9, 1) | card(n8, 1), card(a, 1) | card(k, 1), [card(q, 1) | card(j, 1) | card(t, 1), card(n7, 0), card(n6, 2)]),
        // royal flush with one hole card (ace) over the king-high straight flush on the board
        (card(a, 0) | card(n6, 1), card(n7, 2) | card(n6, 3), [card(n9, 0) | card(t, 0) | card(j, 0), card(q, 0), card(k, 0)]),
        (card(n7, 2) | card(n6, 3), card(a, 0) | card(n6, 1), [card(n9, 0) | card(t, 0) | card(j, 0), card(q, 0), card(k, 0)]),
        // the same straight flush for both seats: king-high on the board, nobody has the ace
        (card(a, 1) | card(n6, 1), card(a, 2) | card(n7, 3), [card(n9, 0) | card(t, 0) | card(j, 0), card(q, 0), card(k, 0)]),
        // straight flush against straight flush, one rank apart (seat 1 higher)
        (card(n7, 2) | card(n6, 2), card(q, 2) | card(j, 2), [card(n8, 2) | card(n9, 2) | card(t, 2), card(a, 0), card(a, 1)]),
        // ---- the board is the best hand
        // full house on the board, low holes: tie
        (card(n7, 0) | card(n6, 1), card(n8, 2) | card(n6, 3), [card(a, 0) | card(a, 1) | card(a, 2), card(k, 0), card(k, 1)]),
        // quads with the ace kicker on the board: tie
        (card(k, 0) | card(q, 1), card(j, 2) | card(n6, 3), [card(n9, 0) | card(n9, 1) | card(n9, 2), card(n9, 3), card(a, 1)]),
        // quads on the board with a low board kicker: the higher hole kicker wins
        (card(k, 0) | card(n7, 1), card(q, 2) | card(j, 3), [card(n9, 0) | card(n9, 1) | card(n9, 2), card(n9, 3), card(n6, 1)]),
        // flush on the board, one seat holds a higher card of the suit
        (card(k, 2) | card(n7, 1), card(n6, 0) | card(n6, 1), [card(a, 2) | card(q, 2) | card(n9, 2), card(n8, 2), card(n7, 2)]),
        // flush on the board, nobody has the suit: tie
        (card(k, 0) | card(k, 1), card(a, 0) | card(a, 1), [card(q, 2) | card(j, 2) | card(n9, 2), card(n8, 2), card(n6, 2)]),
        // ---- kickers
        // same pair, kicker decides
        (card(a, 0) | card(k, 1), card(a, 2) | card(q, 3), [card(a, 3) | card(n9, 1) | card(n7, 2), card(n6, 3), card(j, 0)]),
        // same two pair, the fifth card plays from the board: tie
        (card(a, 0) | card(n6, 1), card(a, 2) | card(n7, 3), [card(a, 3) | card(k, 1) | card(k, 2), card(q, 3), card(j, 0)]),
    ];
    if !rpharness::is_shortdeck() {
        crafted.extend(vec![
            // wheel (five-high straight) against a pair of aces / against a seven-high straight
            (card(a, 0) | card(n2, 1), card(a, 2) | card(k, 3), [card(n3, 0) | card(n4, 1) | card(n5, 2), card(q, 3), card(n9, 0)]),
            (card(a, 0) | card(n2, 1), card(n6, 2) | card(n7, 3), [card(n3, 0) | card(n4, 1) | card(n5, 2), card(q, 3), card(n9, 0)]),
            // wheel on the board: tie; steel wheel (five-high straight flush) against quads
            (card(k, 0) | card(q, 1), card(j, 2) | card(n9, 3), [card(a, 0) | card(n2, 1) | card(n3, 2), card(n4, 3), card(n5, 0)]),
            (card(a, 1) | card(n2, 1), card(k, 0) | card(k, 2), [card(n3, 1) | card(n4, 1) | card(n5, 1), card(k, 1), card(k, 3)]),
            // low two pair against a low pair; a high-card fight decided by the third kicker
            (card(n2, 0) | card(n3, 1), card(n2, 1) | card(n8, 2), [card(n4, 2) | card(n5, 3) | card(n7, 0), card(n3, 3), card(n2, 3)]),
            (card(n7, 0) | card(n2, 1), card(n8, 1) | card(n2, 2), [card(n3, 2) | card(n4, 3) | card(n6, 0), card(j, 3), card(k, 3)]),
        ]);
    } else {
        crafted.extend(vec![
            // short-deck wheel A-6-7-8-9 against a pair of aces / against a jack-high straight
            (card(a, 0) | card(n6, 1), card(a, 2) | card(k, 3), [card(n7, 0) | card(n8, 1) | card(n9, 2), card(q, 3), card(q, 0)]),
            (card(a, 0) | card(n6, 1), card(t, 2) | card(j, 3), [card(n7, 0) | card(n8, 1) | card(n9, 2), card(k, 3), card(k, 0)]),
            // short-deck wheel on the board: tie
            (card(k, 0) | card(q, 1), card(k, 2) | card(q, 3), [card(a, 0) | card(n6, 1) | card(n7, 2), card(n8, 3), card(n9, 0)]),
        ]);
    }
    for (h0, h1, st) in crafted {
        let all = h0 | h1 | st[0] | st[1] | st[2];
        assert!(all & !full == 0 && all.count_ones() == 9, "crafted deal outside the configured deck or with a repeated card: {h0} {h1} {st:?}");
        out.push(Deal { h0, h1, streets: st, class: classify(h0, h1, st[0] | st[1] | st[2]) });
    }
    while out.len() < n {
        let h0 = rng.cards(2, full);
        let h1 = rng.cards(2, full & !h0);
        let f = rng.cards(3, full & !(h0 | h1));
        let t = rng.cards(1, full & !(h0 | h1 | f));
        let r = rng.cards(1, full & !(h0 | h1 | f | t));
        out.push(Deal { h0, h1, streets: [f, t, r], class: classify(h0, h1, f | t | r) });
    }
    out
}

/// the engine's own offered deal (`Game::draw`), with the uniform index of every `Deck::draw`
/// inside it taken from the run's seed (hook H1/H3) so that runs are reproducible
pub fn offered(g: &Game, rng: &mut Rng) -> Hand {
    robopoker::verif::set_draw_index(Some(rng.below(64) as u8));
    let h = g.draw();
    robopoker::verif::set_draw_index(None);
    h
}

/// panic-free views of the engine (None = the call panicked)
pub fn try_turn(g: &Game) -> Option<Turn> {
    let gg = *g;
    rpharness::catch(move || gg.turn())
}
pub fn try_legal(g: &Game) -> Option<Vec<Action>> {
    let gg = *g;
    rpharness::catch(move || gg.legal())
}
pub fn try_apply(g: &Game, a: Action) -> Option<Game> {
    let gg = *g;
    rpharness::catch(move || gg.apply(a))
}
pub fn try_allowed(g: &Game, a: &Action) -> Option<bool> {
    let (gg, aa) = (*g, *a);
    rpharness::catch(move || gg.is_allowed(&aa))
}

/// something the engine did to itself during a walk: (class, input, expected, got)
pub type Issue = (String, String, String, String);

/// every action the engine should accept at a choice node: legal() plus every raise size
pub fn menu(g: &Game) -> Vec<Action> {
    let mut v = vec![];
    for a in try_legal(g).unwrap_or_default() {
        match a {
            Action::Raise(lo) => {
                let hi = g.to_shove() - 1;
                let mut x = lo;
                while x <= hi {
                    v.push(Action::Raise(x));
                    x += 1;
                }
            }
            a => v.push(a),
        }
    }
    v
}

/// one random line of play on the real engine. `style`: 0 uniform over kinds, 1 passive,
/// 2 min-raise war, 3 shove-happy, 4 uniform over (kind, amount).
/// Draws: the deal's forced street cards, or (one time in four) the engine's own offered draw.
/// Returns the actions and the states (states[0] = root) and what the engine did to itself on the
/// way. Never panics: every call into the engine goes through `catch`; an action from the
/// engine's own `legal()` (or a raise size inside its own range, or its own offered draw) that
/// `apply` refuses is recorded as an issue and the walk goes on with another action.
pub fn random_history(rng: &mut Rng, deal: &Deal, style: u64) -> (Vec<Action>, Vec<Game>) {
    let (h, s, _) = random_history_checked(rng, deal, style);
    (h, s)
}

pub fn random_history_checked(rng: &mut Rng, deal: &Deal, style: u64) -> (Vec<Action>, Vec<Game>, Vec<Issue>) {
    let mut issues: Vec<Issue> = vec![];
    let mut g = root_with(deal.h0, deal.h1);
    let mut hist: Vec<Action> = vec![];
    let mut states = vec![g];
    let mut own_draws = false;
    let at = |hist: &[Action]| format!("game {} {} | {}", deal.h0, deal.h1, hist_tok(hist));
    'walk: for _ in 0..400 {
        let turn = match try_turn(&g) {
            Some(t) => t,
            None => {
                issues.push(("turn-panics".into(), at(&hist), "a turn".into(), "panic".into()));
                break;
            }
        };
        // candidate actions in order of preference; the first one the engine applies is taken
        let mut tries: Vec<Action> = vec![];
        match turn {
            Turn::Terminal => break,
            Turn::Chance => {
                let st = { let gg = g; rpharness::catch(move || gg.street() as usize).unwrap_or(0).min(2) };
                if own_draws || rng.chance(1, 4) {
                    own_draws = true; // forced cards may already be on the board: stay with the engine's offers
                    let (gg, mut r2) = (g, rng.fork());
                    match rpharness::catch(move || offered(&gg, &mut r2)) {
                        Some(h) => tries.push(Action::Draw(h)),
                        None => issues.push(("offered-draw-panics".into(), at(&hist), "cards".into(), "panic".into())),
                    }
                    let (gg, mut r2) = (g, rng.fork());
                    if let Some(h) = rpharness::catch(move || offered(&gg, &mut r2)) {
                        tries.push(Action::Draw(h));
                    }
                } else {
                    tries.push(Action::Draw(hand(deal.streets[st])));
                }
                let full = bits(hand(Hand::mask()));
                let in_play = board_bits(&g) | deal.h0 | deal.h1;
                tries.push(Action::Draw(hand(rng.cards(if st == 0 { 3 } else { 1 }, full & !in_play))));
            }
            Turn::Choice(_) => {
                let legal = match try_legal(&g) {
                    Some(l) if !l.is_empty() => l,
                    Some(_) => {
                        issues.push(("legal-empty-at-choice-node".into(), at(&hist), "a non-empty menu".into(), "[]".into()));
                        break;
                    }
                    None => {
                        issues.push(("legal-panics".into(), at(&hist), "a menu".into(), "panic".into()));
                        break;
                    }
                };
                let pick_kind = |rng: &mut Rng, want: &[u8]| -> Action {
                    // want: preference list of kinds (0 raise 1 shove 2 call 3 fold 4 check)
                    for w in want {
                        for a in legal.iter() {
                            let k = match a { Action::Raise(_) => 0, Action::Shove(_) => 1, Action::Call(_) => 2, Action::Fold => 3, Action::Check => 4, _ => 9 };
                            if k == *w { return *a; }
                        }
                    }
                    legal[rng.below(legal.len() as u64) as usize]
                };
                let stack = g.verif_seats()[match turn { Turn::Choice(p) => p.min(1), _ => 0 }].1;
                let a = match style {
                    1 => if rng.chance(4, 5) { pick_kind(rng, &[4, 2]) } else { legal[rng.below(legal.len() as u64) as usize] },
                    2 => if rng.chance(5, 6) { pick_kind(rng, &[0, 2, 4]) } else { pick_kind(rng, &[2, 4]) },
                    3 => if rng.chance(1, 3) { pick_kind(rng, &[1]) } else { legal[rng.below(legal.len() as u64) as usize] },
                    4 => {
                        // uniform over (kind, amount): legal() with Raise(lo) expanded to lo..=stack-1
                        let mut m = vec![];
                        for a in legal.iter() {
                            match a {
                                Action::Raise(lo) => { let mut x = *lo; while x <= stack - 1 { m.push(Action::Raise(x)); x += 1; } if *lo > stack - 1 { m.push(*a); } }
                                a => m.push(*a),
                            }
                        }
                        m[rng.below(m.len() as u64) as usize]
                    }
                    _ => legal[rng.below(legal.len() as u64) as usize],
                };
                let a = match a {
                    Action::Raise(lo) if style != 2 && style != 4 && lo <= stack - 1 => {
                        let hi = stack - 1;
                        let x = match rng.below(5) {
                            0 => lo,
                            1 => hi,
                            2 => (g.pot()).clamp(lo, hi),
                            3 => (lo + rng.below(4) as i16).min(hi),
                            _ => rng.range(lo as i64, hi as i64) as i16,
                        };
                        Action::Raise(x)
                    }
                    a => a,
                };
                tries.push(a);
                // fall-backs: the rest of the engine's own menu, in a rotated order
                let k = rng.below(legal.len() as u64) as usize;
                for i in 0..legal.len() {
                    let b = legal[(i + k) % legal.len()];
                    if b != a { tries.push(b); }
                }
            }
        }
        for a in tries {
            match try_apply(&g, a) {
                Some(child) => {
                    g = child;
                    hist.push(a);
                    states.push(g);
                    continue 'walk;
                }
                None => {
                    let mut h2 = hist.clone();
                    h2.push(a);
                    let from_menu = try_legal(&g).map_or(false, |l| l.contains(&a));
                    let class = if from_menu { "engine-rejects-its-own-legal-action" } else if matches!(a, Action::Draw(_)) { "engine-rejects-a-well-formed-deal" } else { "engine-rejects-an-action-inside-its-own-range" };
                    issues.push((class.into(), at(&h2), format!("apply succeeds ({} is on legal() / inside the range legal() announces)", act_tok(&a)), "panic".into()));
                }
            }
        }
        break; // nothing the engine offers can be applied: the walk ends here
    }
    (hist, states, issues)
}

pub fn kind_name(a: &Action) -> &'static str {
    match a {
        Action::Fold => "fold",
        Action::Check => "check",
        Action::Call(_) => "call",
        Action::Raise(_) => "raise",
        Action::Shove(_) => "shove",
        Action::Blind(_) => "blind",
        Action::Draw(_) => "draw",
    }
}
pub fn street_name(g: &Game) -> &'static str {
    let gg = *g;
    match rpharness::catch(move || gg.street() as isize).unwrap_or(9) {
        0 => "pref",
        1 => "flop",
        2 => "turn",
        3 => "rive",
        _ => "street-panics",
    }
}
pub fn turn_kind(g: &Game) -> &'static str {
    match try_turn(g) {
        Some(Turn::Terminal) => "terminal",
        Some(Turn::Chance) => "chance",
        Some(Turn::Choice(_)) => "choice",
        None => "turn-panics",
    }
}

/// a key identifying the betting state (cards excluded)
pub fn betting_key(g: &Game) -> (i16, [(u8, i16, i16, i16); 2], usize, u8) {
    let s = g.verif_seats();
    let f = |i: usize| (state_char(s[i].0) as u8, s[i].1, s[i].2, s[i].3);
    let gg = *g;
    (g.pot(), [f(0), f(1)], g.verif_ticker(), rpharness::catch(move || gg.street() as isize as u8).unwrap_or(9))
}
